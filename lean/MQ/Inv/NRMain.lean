import MQ.Inv.DiscMain
set_option maxHeartbeats 4000000
/-! # NoReaderInv — frame: the no-reader flag -/
set_option linter.unusedSimpArgs false
namespace MQ

structure NRD where
  noReader : Bool

def St.nrd (σ : St) : NRD := { noReader := σ.noReader }

@[simp] theorem nrd_setTh (σ : St) (t f) : (σ.setTh t f).nrd = σ.nrd := rfl
@[simp] theorem nrd_goto (σ : St) (t pc) : (σ.goto t pc).nrd = σ.nrd := rfl
@[simp] theorem nrd_gotoF (σ : St) (t pc f) : (σ.gotoF t pc f).nrd = σ.nrd := rfl
@[simp] theorem nrd_setHd (σ : St) (g f) : (σ.setHd g f).nrd = σ.nrd := rfl
@[simp] theorem nrd_flush (σ : St) (t) : (σ.flush t).nrd = σ.nrd := rfl

section helpers
variable (σ : St) (t : Nat)
@[simp] theorem afterNotify_nrd (k : Nat) : (afterNotify σ t k).nrd = σ.nrd := by
  unfold afterNotify; split <;> rfl
@[simp] theorem teardownStart_nrd (r : Res) : (teardownStart σ t r).nrd = σ.nrd := rfl
@[simp] theorem arcStep_nrd (r : Res) : (arcStep σ t r).nrd = σ.nrd := by
  unfold arcStep; simp only []; repeat' split
  all_goals rfl
@[simp] theorem startNotify_nrd (k : Nat) : (startNotify σ t k).nrd = σ.nrd := by
  unfold startNotify; split <;> first | rfl | exact afterNotify_nrd σ t k
@[simp] theorem sendDone_nrd (r : Res) : (sendDone σ t r).nrd = σ.nrd := by
  unfold sendDone; simp only []; repeat' split
  all_goals first | exact startNotify_nrd σ t _ | rfl
@[simp] theorem startWait_nrd (j seq : Nat) : (startWait σ t j seq).nrd = σ.nrd := by
  unfold startWait; simp only []; repeat' split
  all_goals rfl
@[simp] theorem recvDone_nrd (r : Res) (j : Nat) : (recvDone σ t r j).nrd = σ.nrd := by
  unfold recvDone; simp only []; repeat' split
  all_goals rfl
@[simp] theorem waitDone_nrd : (waitDone σ t).nrd = σ.nrd := by
  unfold waitDone; simp only []; repeat' split
  all_goals rfl
@[simp] theorem checkDone_nrd (j seq : Nat) (ph : WPh) (b : Bool) : (checkDone σ t j seq ph b).nrd = σ.nrd := by
  unfold checkDone; repeat' split
  all_goals first | rfl | exact waitDone_nrd _ t
@[simp] theorem recvDropTail_nrd : (recvDropTail σ t).nrd = σ.nrd := by
  unfold recvDropTail; simp only []; repeat' split
  all_goals rfl
@[simp] theorem sendDropTail_nrd : (sendDropTail σ t).nrd = σ.nrd := by
  unfold sendDropTail; repeat' split
  all_goals rfl
@[simp] theorem mgrDone_nrd (k : MK) : (mgrDone σ t k).nrd = σ.nrd := by
  unfold mgrDone; simp only []; repeat' split
  all_goals first | rfl | exact sendDone_nrd σ t _ | (simp only [recvDropTail_nrd, sendDropTail_nrd]; done) | (simp only [recvDropTail_nrd, sendDropTail_nrd]; rfl)
@[simp] theorem freeEnd_nrd (k : MK) : (freeEnd σ t k).nrd = σ.nrd := by
  unfold freeEnd; (simp only [mgrDone_nrd]; try rfl)
@[simp] theorem freeTail_nrd (k : MK) : (freeTail σ t k).nrd = σ.nrd := by
  unfold freeTail; repeat' split
  all_goals first | rfl | (simp only [mgrDone_nrd]; try rfl)
@[simp] theorem startNotify2_nrd : (stepRun.startNotify2 σ t).nrd = σ.nrd := rfl
end helpers

@[simp] theorem stepLa2_nrd (σ0 σ : St) (t : Nat) (x : Th) (s : Nat) : (stepRun.stepLa2 σ0 σ t x s).2.nrd = σ.nrd := by
  unfold stepRun.stepLa2; simp only []; repeat' split
  all_goals rfl

/-- the only step that raises the no-reader flag -/
def PC.nrSrc : PC → Bool
  | .rr5 => true
  | _ => false

set_option maxHeartbeats 2000000 in
theorem stepRun_nrd_same (σ : St) (t inp : Nat) (h : (σ.th t).pc.nrSrc = false) :
    (stepRun σ t inp).2.nrd = σ.nrd := by
  unfold stepRun
  simp only []
  split
  all_goals (first | (rename_i heq; rw [heq] at h; simp [PC.nrSrc] at h; done) | skip)
  all_goals (repeat' split)
  all_goals first
    | (simp only [sendDone_nrd, recvDone_nrd, afterNotify_nrd, startNotify_nrd, teardownStart_nrd,
        startWait_nrd, waitDone_nrd, checkDone_nrd, stepLa2_nrd, startNotify2_nrd, mgrDone_nrd, freeTail_nrd,
        freeEnd_nrd, recvDropTail_nrd, sendDropTail_nrd,
        nrd_setTh, nrd_goto, nrd_gotoF, nrd_setHd, nrd_flush]; done)
    | (simp only [sendDone_nrd, recvDone_nrd, afterNotify_nrd, startNotify_nrd, teardownStart_nrd,
        startWait_nrd, waitDone_nrd, checkDone_nrd, stepLa2_nrd, startNotify2_nrd, mgrDone_nrd, freeTail_nrd,
        freeEnd_nrd, recvDropTail_nrd, sendDropTail_nrd,
        nrd_setTh, nrd_goto, nrd_gotoF, nrd_setHd, nrd_flush] <;> rfl)
    | rfl



/-!
# NoReaderInv — the no-reader flag is raised only when no stream is left, and that is final

`rr4` loads the stream list after a removal; if it is empty the thread goes on to `rr5` and raises the flag. An empty
list is stable: a stream can only be added by a thread that holds a counted receiver handle, and a counted handle's
stream is on the list (`MInv.clReg`).
-/

structure NRInv (σ : St) : Prop where
  flag : σ.noReader = true → σ.groups σ.cur = []
  at5 : ∀ t, (σ.th t).pc = .rr5 → σ.groups σ.cur = []

theorem no_handle_of_no_stream {σ : St} (M : MInv σ) (h : σ.groups σ.cur = []) : ∀ s, σ.cl s = [] := by
  intro s
  apply Classical.byContradiction; intro hne
  have := M.clReg s hne
  simp only [reg, St.ring] at this
  rw [h] at this; cases this

/-- an empty stream list stays empty -/
theorem empty_stable {σ : St} (x inp : Nat) (M : MInv σ) (R : RegInv σ) (h : σ.groups σ.cur = []) :
    (stepRun σ x inp).2.groups (stepRun σ x inp).2.cur = [] := by
  have hcl := no_handle_of_no_stream M h
  by_cases hs : ∀ c raw ng, (σ.th x).pc ≠ .a2 c ∧ (σ.th x).pc ≠ .a3 c raw ng ∧ (σ.th x).pc ≠ .rr1 ∧ (σ.th x).pc ≠ .rr2 c ng
  · have he := stepRun_ereg_same σ x inp hs
    have h1 : (stepRun σ x inp).2.cur = σ.cur := congrArg EReg.cur he
    have h2 : (stepRun σ x inp).2.groups = σ.groups := congrArg EReg.groups he
    rw [h1, h2]; exact h
  · have hlt := R.curlt
    cases hpc : (σ.th x).pc
    all_goals first | (exfalso; apply hs; intro c raw ng; rw [hpc]; simp; done) | skip
    case a2 c =>
      simp only [stepRun, hpc]
      simp only [St.gotoF, St.setTh, St.flush, upd]
      rw [if_neg (by omega)]; exact h
    case a3 c raw ng =>
      exfalso
      have := ((M.thr x).add (by rw [hpc]; rfl)).1
      rw [hcl] at this; cases this
    case rr1 =>
      simp only [stepRun, hpc]
      simp only [St.goto, St.setTh, St.flush, upd]
      rw [if_neg (by omega)]; exact h
    case rr2 c ng =>
      have L := R.loc x; simp only [RLoc, hpc] at L
      obtain ⟨l3, l4, l5⟩ := L
      by_cases hc : σ.cur = c
      · have : σ.groups ng = [] := by rw [l5, ← hc, h]; rfl
        simp only [stepRun, hpc, hc, if_true]; split <;> exact this
      · simp only [stepRun, hpc, hc, if_false]
        simp only [St.goto, St.setTh, St.flush, upd]
        rw [if_neg (by omega)]; exact h


macro "nr_case" hpc:ident : tactic =>
  `(tactic| (pin_unf $hpc:ident; (repeat' split) <;>
      simp_all [St.goto, St.gotoF, St.flush, St.setTh, St.setHd, upd]))

/-- `rr5` is entered only from `rr4`, when the stream list was found empty -/
theorem to_rr5 (σ : St) (x inp : Nat) (h : ((stepRun σ x inp).2.th x).pc = .rr5) :
    (σ.th x).pc = .rr4 ∧ (σ.groups σ.cur).length = 0 := by
  cases hpc : (σ.th x).pc
  case hd m h' => cases m <;> (revert h; nr_case hpc)
  case g3 m h' tl p md => cases m <;> cases md <;> (revert h; pin_unf hpc; (repeat' split) <;> simp [St.goto, St.gotoF, St.flush, St.setTh, St.setHd, upd])
  all_goals (revert h; nr_case hpc)


theorem nil_of_length_zero {l : List Nat} (h : l.length = 0) : l = [] := List.eq_nil_of_length_eq_zero h

theorem nr_stepRun {σ : St} (x inp : Nat) (N : NRInv σ) (M : MInv σ) (R : RegInv σ) : NRInv (stepRun σ x inp).2 := by
  refine ⟨?_, ?_⟩
  · intro hf
    by_cases h5 : (σ.th x).pc = .rr5
    · exact empty_stable x inp M R (N.at5 x h5)
    · have hn : (σ.th x).pc.nrSrc = false := by
        cases hpc : (σ.th x).pc <;> first | rfl | exact absurd hpc h5
      have := congrArg NRD.noReader (stepRun_nrd_same σ x inp hn)
      simp only [St.nrd] at this
      rw [this] at hf
      exact empty_stable x inp M R (N.flag hf)
  · intro t ht
    by_cases e : t = x
    · subst e
      exact empty_stable t inp M R (nil_of_length_zero (to_rr5 σ t inp ht).2)
    · rw [stepRun_th σ x inp t e] at ht
      exact empty_stable x inp M R (N.at5 t ht)

theorem callPrep_nr (σ : St) (t : Nat) (o : Outer) (g v ng ns : Nat) :
    (callPrep σ t o g v ng ns).noReader = σ.noReader := by
  unfold callPrep; simp only []; split <;> rfl

theorem callEntry_nr (σb : St) (t : Nat) (o : Outer) (g ng ns : Nat) (h : (σb.th t).pc = .idle) :
    (callEntry σb t o g ng ns).noReader = σb.noReader ∧ ((callEntry σb t o g ng ns).th t).pc ≠ .rr5 := by
  unfold callEntry; cases o
  all_goals simp only []
  all_goals repeat' split
  all_goals refine ⟨?_, ?_⟩
  all_goals first | rfl | (simp [St.goto, St.setTh, St.setHd, upd]; done) | (rw [h]; simp)

theorem nr_step {σ : St} (l : Label) (N : NRInv σ) (M : MInv σ) (R : RegInv σ) : NRInv (step σ l) := by
  cases l
  case run x inp => exact nr_stepRun x inp N M R
  case call t o g v ng ns =>
    by_cases hc : callOk σ t o g ng ns = true
    rotate_left
    · have : step σ (.call t o g v ng ns) = σ := by simp only [step, hc]; rfl
      rw [this]; exact N
    have e : step σ (.call t o g v ng ns) = callEntry (callPrep σ t o g v ng ns) t o g ng ns := by
      simp only [step, hc, if_true]
    simp only [callOk, Bool.and_eq_true, decide_eq_true_eq, Bool.not_eq_true', Bool.and_eq_false_iff] at hc
    obtain ⟨⟨⟨⟨⟨hidle, _⟩, _⟩, _⟩, _⟩, _⟩ := hc
    have hp : ((callPrep σ t o g v ng ns).th t).pc = .idle := by rw [(callPrep_pc σ t o g v ng ns).1]; exact hidle
    obtain ⟨c1, c2⟩ := callEntry_nr (callPrep σ t o g v ng ns) t o g ng ns hp
    obtain ⟨_, _, _, _, _, _, _, p8, p9, p10, _⟩ := callPrep_facts σ t o g v ng ns
    obtain ⟨_, _, _, _, q5, q6, _, q8⟩ := callEntry_frame (callPrep σ t o g v ng ns) t o g ng ns
    rw [e]
    refine ⟨?_, ?_⟩
    · intro hf; rw [c1, callPrep_nr] at hf; rw [q5, q6, p8, p9]; exact N.flag hf
    · intro u hu
      rw [q5, q6, p8, p9]
      by_cases eu : u = t
      · subst eu; exact absurd hu c2
      · rw [q8 u eu, p10 u eu] at hu; exact N.at5 u hu
  case retn t =>
    by_cases hr : ∃ r, (σ.th t).pc = .ret r
    rotate_left
    · have : step σ (.retn t) = σ := by
        simp only [step]; split
        · rename_i r h; exact absurd ⟨r, h⟩ hr
        · rfl
      rw [this]; exact N
    obtain ⟨r, hpc⟩ := hr
    have hform : ∃ f, step σ (.retn t) = { ((σ.goto t .idle).flush t) with hs := f } := by
      simp only [step, hpc]; repeat' split
      all_goals exact ⟨_, rfl⟩
    obtain ⟨f, hf⟩ := hform
    rw [hf]
    refine ⟨fun h => N.flag h, fun u hu => ?_⟩
    by_cases eu : u = t
    · subst eu; simp [St.goto, St.flush, St.setTh, upd] at hu
    · have : ({ ((σ.goto t .idle).flush t) with hs := f } : St).th u = σ.th u := by simp [St.goto, St.flush, St.setTh, upd, eu]
      rw [this] at hu; exact N.at5 u hu
  case arc t =>
    by_cases hr : ∃ r, (σ.th t).pc = .arc r
    rotate_left
    · have : step σ (.arc t) = σ := by
        simp only [step]; split
        · rename_i r h; exact absurd ⟨r, h⟩ hr
        · rfl
      rw [this]; exact N
    obtain ⟨r, hpc⟩ := hr
    have e : step σ (.arc t) = arcStep σ t r := by simp only [step, hpc]
    rw [e]
    have hr := arcStep_ring σ t r
    have h1 : (arcStep σ t r).cur = σ.cur := congrArg Ring.cur hr
    have h2 : (arcStep σ t r).groups = σ.groups := congrArg Ring.groups hr
    have h3 : (arcStep σ t r).noReader = σ.noReader := congrArg NRD.noReader (arcStep_nrd σ t r)
    refine ⟨fun h => by rw [h1, h2]; rw [h3] at h; exact N.flag h, fun u hu => ?_⟩
    rw [h1, h2]
    by_cases eu : u = t
    · subst eu
      have := neutral_punk (arcStep_neutral σ u r)
      exfalso
      unfold arcStep at hu; simp only [] at hu
      (repeat' split at hu) <;> simp [St.goto, St.setTh, upd] at hu
    · rw [arcStep_th σ t r u eu] at hu; exact N.at5 u hu
  case wake t =>
    by_cases hr : ∃ j seq, (σ.th t).pc = .wblk j seq ∧ ¬ (σ.cvWaiters.contains t || σ.wlockOwner.isSome) = true
    rotate_left
    · have : step σ (.wake t) = σ := by
        simp only [step]; split
        · rename_i j seq h
          split
          · rfl
          · rename_i h2; exact absurd ⟨j, seq, h, h2⟩ hr
        · rfl
      rw [this]; exact N
    obtain ⟨j, seq, hpc, hc⟩ := hr
    have e : step σ (.wake t) = σ.goto t (.c1 j seq .after) := by simp only [step, hpc]; rw [if_neg hc]
    rw [e]
    refine ⟨fun h => N.flag h, fun u hu => ?_⟩
    by_cases eu : u = t
    · subst eu; simp [St.goto, St.setTh, upd] at hu
    · have : (σ.goto t (.c1 j seq .after)).th u = σ.th u := by simp [St.goto, St.setTh, upd, eu]
      rw [this] at hu; exact N.at5 u hu

theorem nr_init (N : Nat) (bcast : Bool) (wait : WaitK) (fut : Bool) : NRInv (init N bcast wait fut) :=
  ⟨fun h => by simp [init] at h, fun t h => by simp [init] at h⟩

/-- the no-reader invariant along every execution without the futures handle conversions — including the removal
of the last stream (no F12 exclusion needed) -/
theorem nr_run (σ : St) (ls : List Label) (h : ∀ l ∈ ls, l.noConv) (N : NRInv σ) (M : MInv σ) (R : RegInv σ) :
    NRInv (runFrom σ ls) ∧ MInv (runFrom σ ls) ∧ RegInv (runFrom σ ls) := by
  induction ls generalizing σ with
  | nil => exact ⟨N, M, R⟩
  | cons l ls ih =>
      exact ih _ (fun l' hl' => h l' (List.mem_cons_of_mem _ hl')) (nr_step l N M R)
        (minv_step l M R (h l (List.mem_cons_self ..))) (reginv_step l R)

end MQ
