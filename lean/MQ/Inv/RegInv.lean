import MQ.Inv.Frame2
/-!
# RegInv — the stream registry (published list, group objects, stream ids): an invariant that needs no hypothesis

The facts about reader groups that the epoch argument uses hold in *every* execution — also after the last
stream was removed, during teardown, and in the regions of the open findings F1/F12 — because they do not talk
about positions at all.
-/
set_option linter.unusedSimpArgs false
set_option linter.unusedVariables false
namespace MQ

/-- program points with a registry fact -/
def PC.rPhase : PC → Bool
  | .g2 _ _ _ _ _ _ | .a1 | .a2 _ | .a3 _ _ _ | .rr2 _ _ => true
  | _ => false

/-- sources treated one by one -/
def PC.rSrc : PC → Bool
  | .g1 _ _ _ | .g2 _ _ _ _ _ _ | .a1 | .a2 _ | .a3 _ _ _ | .rr1 | .rr2 _ _ => true
  | _ => false

def RLoc (σ : St) (x : Th) : Prop :=
  match x.pc with
  | .g2 _ _ _ p _ _ => p ≤ σ.cur
  | .a1 => σ.sused x.ns = true ∧ σ.est x.ns = false
  | .a2 c => σ.sused x.ns = true ∧ σ.est x.ns = false ∧ c ≤ σ.cur
  | .a3 c _ ng =>
      σ.sused x.ns = true ∧ σ.est x.ns = false ∧ c < ng ∧ ng < σ.nextGrp ∧ σ.groups ng = σ.groups c ++ [x.ns]
  | .rr2 c ng => c < ng ∧ ng < σ.nextGrp ∧ σ.groups ng = (σ.groups c).filter (· != x.s)
  | _ => True

structure RegInv (σ : St) : Prop where
  curlt : σ.cur < σ.nextGrp
  regest : ∀ s, s ∈ σ.groups σ.cur → σ.est s = true
  estsub : ∀ s, σ.est s = true → σ.sused s = true
  loc : ∀ t, RLoc σ (σ.th t)
  nsinj : ∀ t1 t2, (σ.th t1).pc.addPC = true → (σ.th t2).pc.addPC = true → (σ.th t1).ns = (σ.th t2).ns → t1 = t2

theorem RLoc_of_not_phase {σ : St} {x : Th} (h : x.pc.rPhase = false) : RLoc σ x := by
  obtain ⟨pc, g', v', outer, ff, pn, ng, ns, s, single, aux⟩ := x
  cases pc <;> first | (simp [PC.rPhase] at h; done) | simp only [RLoc]

macro "rplain_tac" : tactic =>
  `(tactic| ((try simp only []); repeat' split) <;> first | rfl | (simp [PC.rPhase, St.goto, St.gotoF, St.setTh, St.setHd, St.flush, upd, *]; done))

section
variable (σ : St) (t : Nat)
@[simp] theorem afterNotify_rplain (k : Nat) : ((afterNotify σ t k).th t).pc.rPhase = false := by
  unfold afterNotify; rplain_tac
@[simp] theorem teardownStart_rplain (r : Res) : ((teardownStart σ t r).th t).pc.rPhase = false := by
  unfold teardownStart; rplain_tac
@[simp] theorem arcStep_rplain (r : Res) : ((arcStep σ t r).th t).pc.rPhase = false := by
  unfold arcStep; rplain_tac
@[simp] theorem startNotify_rplain (k : Nat) : ((startNotify σ t k).th t).pc.rPhase = false := by
  unfold startNotify; split <;> first | exact afterNotify_rplain σ t k | rplain_tac
@[simp] theorem sendDone_rplain (r : Res) : ((sendDone σ t r).th t).pc.rPhase = false := by
  unfold sendDone; (try simp only []); repeat' split
  all_goals first | exact startNotify_rplain σ t _ | rplain_tac
@[simp] theorem startWait_rplain (j seq : Nat) : ((startWait σ t j seq).th t).pc.rPhase = false := by
  unfold startWait; rplain_tac
@[simp] theorem recvDone_rplain (r : Res) (j : Nat) : ((recvDone σ t r j).th t).pc.rPhase = false := by
  unfold recvDone; rplain_tac
@[simp] theorem waitDone_rplain : ((waitDone σ t).th t).pc.rPhase = false := by
  unfold waitDone; rplain_tac
@[simp] theorem checkDone_rplain (j seq : Nat) (ph : WPh) (b : Bool) : ((checkDone σ t j seq ph b).th t).pc.rPhase = false := by
  unfold checkDone; repeat' split
  all_goals first | exact waitDone_rplain _ t | rplain_tac
@[simp] theorem recvDropTail_rplain : ((recvDropTail σ t).th t).pc.rPhase = false := by
  unfold recvDropTail; (try simp only []); repeat' split
  all_goals first | (simp [teardownStart, PC.rPhase, St.goto, St.setTh, upd]; done) | rplain_tac
@[simp] theorem sendDropTail_rplain : ((sendDropTail σ t).th t).pc.rPhase = false := by
  unfold sendDropTail; repeat' split
  all_goals first | exact teardownStart_rplain σ t _ | rplain_tac
@[simp] theorem mgrDone_rplain (k : MK) : ((mgrDone σ t k).th t).pc.rPhase = false := by
  unfold mgrDone; (try simp only []); repeat' split
  all_goals first
    | exact sendDone_rplain σ t _
    | exact recvDropTail_rplain _ t
    | exact sendDropTail_rplain _ t
    | rplain_tac
@[simp] theorem freeEnd_rplain (k : MK) : ((freeEnd σ t k).th t).pc.rPhase = false := by
  unfold freeEnd; exact mgrDone_rplain _ t _
@[simp] theorem freeTail_rplain (k : MK) : ((freeTail σ t k).th t).pc.rPhase = false := by
  unfold freeTail; repeat' split
  all_goals first | exact mgrDone_rplain _ t _ | rplain_tac
@[simp] theorem startNotify2_rplain : ((stepRun.startNotify2 σ t).th t).pc.rPhase = false := by
  unfold stepRun.startNotify2; rplain_tac
end

@[simp] theorem stepLa2_rplain (σ0 σ : St) (t : Nat) (x : Th) (s : Nat) :
    ((stepRun.stepLa2 σ0 σ t x s).2.th t).pc.rPhase = false := by
  unfold stepRun.stepLa2; simp only []; repeat' split
  all_goals (simp [PC.rPhase, St.goto, St.setTh, upd])

set_option maxHeartbeats 2000000 in
theorem stepRun_rplain (σ : St) (t inp : Nat) (h : (σ.th t).pc.rSrc = false) :
    ((stepRun σ t inp).2.th t).pc.rPhase = false := by
  unfold stepRun
  simp only []
  split
  all_goals (first | (rename_i heq; rw [heq] at h; simp [PC.rSrc] at h; done) | skip)
  all_goals (repeat' split)
  all_goals first
    | (simp only [sendDone_rplain, recvDone_rplain, checkDone_rplain, startWait_rplain, afterNotify_rplain,
        startNotify_rplain, teardownStart_rplain, mgrDone_rplain, freeTail_rplain, freeEnd_rplain, startNotify2_rplain, stepLa2_rplain]; done)
    | (simp [PC.rPhase, th_goto, th_gotoF, th_setTh, th_flush, th_setHd]; done)
    | (rename_i heq; simp [heq, PC.rPhase]; done)
    | (rename_i heq _; simp [heq, PC.rPhase]; done)
    | (simp [PC.rPhase, St.goto, St.gotoF, St.setTh, St.setHd, St.flush, upd, teardownStart]; done)


/-- the registry part of the ring: which group is published, the groups' contents, the streams established -/
structure EReg where
  cur : Nat
  groups : Nat → List Nat
  nextGrp : Nat
  est : Nat → Bool
  sused : Nat → Bool

def St.ereg (σ : St) : EReg := { cur := σ.cur, groups := σ.groups, nextGrp := σ.nextGrp, est := σ.est, sused := σ.sused }

@[simp] theorem ereg_setTh (σ : St) (t f) : (σ.setTh t f).ereg = σ.ereg := rfl
@[simp] theorem ereg_goto (σ : St) (t pc) : (σ.goto t pc).ereg = σ.ereg := rfl
@[simp] theorem ereg_setHd (σ : St) (g f) : (σ.setHd g f).ereg = σ.ereg := rfl
@[simp] theorem ereg_flush (σ : St) (t) : (σ.flush t).ereg = σ.ereg := rfl

theorem ereg_of_ring {σ σ' : St} (h : σ'.ring = σ.ring) : σ'.ereg = σ.ereg := by
  have h1 := congrArg Ring.cur h
  have h2 := congrArg Ring.groups h
  have h3 := congrArg Ring.nextGrp h
  have h4 := congrArg Ring.est h
  have h5 := congrArg Ring.sused h
  simp only [St.ring] at h1 h2 h3 h4 h5
  simp only [St.ereg, h1, h2, h3, h4, h5]

theorem sendDone_ereg (σ : St) (t : Nat) (r : Res) : (sendDone σ t r).ereg = σ.ereg := ereg_of_ring (sendDone_ring σ t r)
theorem recvDone_ereg (σ : St) (t : Nat) (r : Res) (j : Nat) : (recvDone σ t r j).ereg = σ.ereg :=
  ereg_of_ring (recvDone_ring σ t r j)

/-- only the four list-manipulating steps touch the registry -/
theorem stepRun_ereg_same (σ : St) (t inp : Nat)
    (h : ∀ c raw ng, (σ.th t).pc ≠ .a2 c ∧ (σ.th t).pc ≠ .a3 c raw ng ∧ (σ.th t).pc ≠ .rr1 ∧ (σ.th t).pc ≠ .rr2 c ng) :
    (stepRun σ t inp).2.ereg = σ.ereg := by
  cases hr : (σ.th t).pc.ringChanging
  · exact ereg_of_ring (stepRun_ring_same σ t inp hr)
  · cases hpc : (σ.th t).pc <;> rw [hpc] at hr <;> (try (simp [PC.ringChanging] at hr; done))
    case tcs hh c => simp only [stepRun, hpc]; repeat' split
                     all_goals first | rfl | (rw [sendDone_ereg]; rfl)
    case tcc hh tl c => simp only [stepRun, hpc]; repeat' split
                        all_goals first | rfl | (rw [sendDone_ereg]; rfl)
    case hd m hh => cases m <;> simp only [stepRun, hpc] <;> (repeat' split) <;> rfl
    case wr hh o => simp only [stepRun, hpc]; rfl
    case ts hh o => simp only [stepRun, hpc]; repeat' split
                    all_goals first | rfl | (rw [sendDone_ereg]; rfl)
    case r9 p sg c => simp only [stepRun, hpc]; repeat' split
                      all_goals first | rfl | (rw [recvDone_ereg]; rfl)
    case v4 p c => simp only [stepRun, hpc]; rw [recvDone_ereg]; rfl
    case a2 c => exact absurd hpc (h c 0 0).1
    case a3 c raw ng => exact absurd hpc (h c raw ng).2.1
    case rr1 => exact absurd hpc (h 0 0 0).2.2.1
    case rr2 c ng => exact absurd hpc (h c 0 ng).2.2.2


end MQ
