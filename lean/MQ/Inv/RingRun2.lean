import MQ.Inv.RingRun
set_option linter.unusedSimpArgs false
namespace MQ

/-- generic wrapper for steps that change no ring word -/
theorem rinv_run_same {σ : St} (t inp : Nat) (I : RInv σ) (hnc : (σ.th t).pc.ringChanging = false)
    (hna : (σ.th t).pc.addPC = false)
    (hl : Loc σ.ring ((stepRun σ t inp).2.th t))
    (hc : ((stepRun σ t inp).2.th t).pc.claim = (σ.th t).pc.claim) : RInv (stepRun σ t inp).2 := by
  unfold RInv
  rw [th_eq_upd, stepRun_ring_same _ _ _ hnc]
  exact rinvR_same I hl hc (by intro e; rw [stepRun_not_add _ _ _ hna] at e; cases e)

/-- same, with the ring equality given explicitly (failed CAS and the like) -/
theorem rinv_run_same' {σ : St} (t inp : Nat) (I : RInv σ) (hring : (stepRun σ t inp).2.ring = σ.ring)
    (hna : (σ.th t).pc.addPC = false)
    (hl : Loc σ.ring ((stepRun σ t inp).2.th t))
    (hc : ((stepRun σ t inp).2.th t).pc.claim = (σ.th t).pc.claim) : RInv (stepRun σ t inp).2 := by
  unfold RInv
  rw [th_eq_upd, hring]
  exact rinvR_same I hl hc (by intro e; rw [stepRun_not_add _ _ _ hna] at e; cases e)

theorem rinv_run_sh {σ : St} (t inp : Nat) (m : Bool) (I : RInv σ) (M : ModeOK σ)
    (hpc : (σ.th t).pc = .sh m) : RInv (stepRun σ t inp).2 := by
  have g := I.g
  apply rinv_run_same t inp I (by rw [hpc]; rfl) (by rw [hpc]; rfl)
  · simp only [stepRun, hpc]
    simp [Loc, St.goto, St.flush, St.setTh, upd, St.ring]
    have := g.tcN; simp [St.ring] at this
    omega
  · simp only [stepRun, hpc]
    simp [St.goto, St.flush, St.setTh, upd, PC.claim]

end MQ

namespace MQ

/-- unfolding helper: the thread record after a `goto` -/
theorem th_self_goto (σ : St) (t : Nat) (pc : PC) : (σ.goto t pc).th t = { σ.th t with pc := pc } := by
  simp [St.goto, St.setTh, upd]

theorem rinv_run_st {σ : St} (t inp : Nat) (m : Bool) (h : Nat) (I : RInv σ)
    (hpc : (σ.th t).pc = .st m h) : RInv (stepRun σ t inp).2 := by
  have g := I.g
  have L := I.loc t
  simp only [Loc, hpc] at L
  obtain ⟨L1, L2, L3⟩ := L
  have hN := g.tcN
  apply rinv_run_same t inp I (by rw [hpc]; rfl) (by rw [hpc]; rfl)
  · simp only [stepRun, hpc]
    simp only [St.ring] at *
    repeat' split
    all_goals simp [Loc, St.goto, St.gotoF, St.flush, St.setTh, upd]
    all_goals (first | omega | (refine ⟨by omega, by omega, ?_⟩; intro hm; exact ⟨L3 hm, rfl⟩) | (refine ⟨by omega, by omega, ?_⟩; intro hm; exact L3 hm) | skip)
  · simp only [stepRun, hpc]
    repeat' split
    all_goals simp [St.goto, St.gotoF, St.flush, St.setTh, upd, PC.claim]

end MQ

namespace MQ

macro "run_unfold" hpc:ident : tactic =>
  `(tactic| (simp only [stepRun, $hpc:ident]; (try simp only [St.ring] at *); repeat' split))

macro "run_simp" : tactic =>
  `(tactic| simp [Loc, St.goto, St.gotoF, St.flush, St.setTh, St.setHd, upd, PC.claim, reg] at *)

theorem rinv_run_g1 {σ : St} (t inp : Nat) (m : Bool) (h tl : Nat) (I : RInv σ)
    (hpc : (σ.th t).pc = .g1 m h tl) : RInv (stepRun σ t inp).2 := by
  have L := I.loc t
  simp only [Loc, hpc] at L
  obtain ⟨L1, L2, L3, L4⟩ := L
  apply rinv_run_same t inp I (by rw [hpc]; rfl) (by rw [hpc]; rfl)
  · run_unfold hpc
    · rename_i hlen
      simp [Loc, St.goto, St.flush, St.setTh, upd]
      refine ⟨L1, L2, L3, ?_, L4⟩
      intro j hj; rw [List.length_eq_zero_iff.mp hlen] at hj; simp at hj
    · rename_i hlen
      simp [Loc, St.goto, St.flush, St.setTh, upd]
      exact ⟨L1, L2, L3, by omega, L4⟩
  · run_unfold hpc <;> simp [St.goto, St.flush, St.setTh, upd, PC.claim]

end MQ

namespace MQ

theorem rinv_run_g2 {σ : St} (t inp : Nat) (m : Bool) (h tl p i md : Nat) (I : RInv σ)
    (hpc : (σ.th t).pc = .g2 m h tl p i md) : RInv (stepRun σ t inp).2 := by
  have g := I.g
  have L := I.loc t
  simp only [Loc, hpc] at L
  obtain ⟨L1, L2, L3, L4, L5, L6⟩ := L
  apply rinv_run_same t inp I (by rw [hpc]; rfl) (by rw [hpc]; rfl)
  · run_unfold hpc
    · simp [Loc, St.goto, St.flush, St.setTh, upd]
      exact ⟨L1, L2, L3, L6⟩
    · rename_i hge hlt
      simp [Loc, St.goto, St.flush, St.setTh, upd]
      refine ⟨L1, L2, L3, L4, ?_, L6⟩
      intro hc
      obtain ⟨a, b, c⟩ := L5 hc
      have hreg : reg σ.ring ((σ.groups p).getD i 0) := by
        simp only [reg, St.ring]; rw [← hc]
        rw [List.getD_eq_getElem?_getD, List.getElem?_eq_getElem b]; simp
      have h1 := g.tcle _ hreg
      simp only [St.ring] at h1
      simp only [List.getD_eq_getElem?_getD] at *
      refine ⟨by omega, hlt, ?_⟩
      intro j hj hjl
      rcases Nat.lt_or_ge j i with hji | hji
      · have := c j hji hjl; omega
      · have : j = i := by omega
        subst this; omega
    · rename_i hge hlt
      simp [Loc, St.goto, St.flush, St.setTh, upd]
      refine ⟨L1, L2, L3, L4, ?_, L6⟩
      intro hc
      obtain ⟨a, b, c⟩ := L5 hc
      have hreg : reg σ.ring ((σ.groups p).getD i 0) := by
        simp only [reg, St.ring]; rw [← hc]
        rw [List.getD_eq_getElem?_getD, List.getElem?_eq_getElem b]; simp
      have h1 := g.tcle _ hreg
      simp only [St.ring] at h1
      simp only [List.getD_eq_getElem?_getD] at *
      refine ⟨by omega, ?_⟩
      intro j hjl
      rcases Nat.lt_or_ge j i with hji | hji
      · have := c j hji hjl; omega
      · have : j = i := by omega
        subst this; omega
  · run_unfold hpc <;> simp [St.goto, St.flush, St.setTh, upd, PC.claim]

end MQ

namespace MQ

theorem mem_getD {l : List Nat} {s : Nat} (h : s ∈ l) : ∃ j, j < l.length ∧ l[j]?.getD 0 = s := by
  obtain ⟨j, hj, e⟩ := List.getElem_of_mem h
  exact ⟨j, hj, by simp [List.getElem?_eq_getElem hj, e]⟩

theorem rinv_run_g3 {σ : St} (t inp : Nat) (m : Bool) (h tl p : Nat) (r : Option Nat) (I : RInv σ)
    (hpc : (σ.th t).pc = .g3 m h tl p r) : RInv (stepRun σ t inp).2 := by
  have g := I.g
  have L := I.loc t
  apply rinv_run_same t inp I (by rw [hpc]; rfl) (by rw [hpc]; rfl)
  · cases r
    · -- none
      simp only [Loc, hpc] at L
      obtain ⟨L1, L2, L3, L4⟩ := L
      cases m
      · run_unfold hpc
        · simp [Loc, St.goto, St.flush, St.setTh, upd]
        · simp [Loc, St.goto, St.flush, St.setTh, upd]; exact ⟨L1, L2, L3, L4 trivial⟩
      · run_unfold hpc
        · simp [Loc, St.goto, St.flush, St.setTh, upd]; omega
        · simp [Loc, St.goto, St.flush, St.setTh, upd]; exact ⟨L1, L2, L3⟩
    · rename_i md
      simp only [Loc, hpc] at L
      obtain ⟨L1, L2, L3, L4, L5, L6⟩ := L
      have key : p = σ.cur → md ≤ σ.N ∧ ∀ s', reg σ.ring s' → h - md ≤ σ.pos s' := by
        intro hc
        obtain ⟨a, b⟩ := L5 hc
        refine ⟨a, ?_⟩
        intro s' hs'
        simp only [reg, St.ring] at hs'
        rw [← hc] at hs'
        obtain ⟨j, hj, e⟩ := mem_getD hs'
        have := b j hj
        simpa [St.ring, List.getD_eq_getElem?_getD, e] using this
      cases m
      · run_unfold hpc
        · rename_i hc
          obtain ⟨k1, k2⟩ := key hc.symm
          obtain ⟨m1, m2⟩ := L6 trivial
          simp [Loc, St.goto, St.flush, St.setTh, upd, reg]
          simp only [St.ring, reg] at k2
          exact ⟨m1, by omega, by omega, fun s' hs' => by have := k2 s' hs'; omega⟩
        · simp [Loc, St.goto, St.flush, St.setTh, upd]; exact ⟨L1, L2, L3, L6 trivial⟩
      · run_unfold hpc
        · exact loc_of_neutral (sendDone_neutral _ t _)
        · simp [Loc, St.goto, St.flush, St.setTh, upd]; omega
        · simp [Loc, St.goto, St.gotoF, St.flush, St.setTh, upd]; omega
        · rename_i hc _
          obtain ⟨k1, k2⟩ := key hc.symm
          simp [Loc, St.goto, St.flush, St.setTh, upd, reg]
          simp only [St.ring, reg] at k2
          exact ⟨L1, by omega, L3, L2, fun s' hs' => by have := k2 s' hs'; omega⟩
        · simp [Loc, St.goto, St.flush, St.setTh, upd]; exact ⟨L1, L2, L3⟩
  · have hcn : ∀ (σ' : St) (r : Res), ((sendDone σ' t r).th t).pc.claim = none :=
      fun σ' r => claim_of_neutral (sendDone_neutral σ' t r)
    cases r <;> cases m <;> run_unfold hpc <;>
      first | exact hcn _ _ | (simp [St.goto, St.gotoF, St.flush, St.setTh, upd, PC.claim]; done)

end MQ

namespace MQ

theorem others_not_single {σ : St} (M : ModeOK σ) (t : Nat) (h : (σ.th t).pc.sendActive = true) :
    ∀ u, u ≠ t → (σ.th u).pc.singleSend = false := by
  intro u hu
  cases e : (σ.th u).pc.singleSend
  · rfl
  · exact (M.send t u (Ne.symm hu) h e).elim

theorem rinv_run_tcs {σ : St} (t inp : Nat) (h cur : Nat) (I : RInv σ) (M : ModeOK σ)
    (hpc : (σ.th t).pc = .tcs h cur) : RInv (stepRun σ t inp).2 := by
  have g := I.g
  have L := I.loc t
  simp only [Loc, hpc] at L
  obtain ⟨L1, L2, L3, L4, L5⟩ := L
  have hring : (stepRun σ t inp).2.ring = { σ.ring with tc := cur } := by
    simp only [stepRun, hpc]; repeat' split
    all_goals (simp only [sendDone_ring, ring_goto, ring_gotoF]; rfl)
  unfold RInv
  rw [th_eq_upd, hring]
  apply rinvR_tc I (others_not_single M t (by rw [hpc]; rfl)) L2 L5 (by omega)
  · run_unfold hpc
    · exact loc_of_neutral (sendDone_neutral _ t _)
    · simp [Loc, St.goto, St.flush, St.setTh, upd]; omega
    · simp [Loc, St.goto, St.gotoF, St.flush, St.setTh, upd]; omega
  · run_unfold hpc
    · exact claim_of_neutral (sendDone_neutral _ t _)
    · simp [St.goto, St.flush, St.setTh, upd, PC.claim]
    · simp [St.goto, St.gotoF, St.flush, St.setTh, upd, PC.claim]
  · exact stepRun_not_add _ _ _ (by rw [hpc]; rfl)

theorem rinv_run_tcc {σ : St} (t inp : Nat) (h tl cur : Nat) (I : RInv σ) (M : ModeOK σ)
    (hpc : (σ.th t).pc = .tcc h tl cur) : RInv (stepRun σ t inp).2 := by
  have g := I.g
  have L := I.loc t
  simp only [Loc, hpc] at L
  obtain ⟨L1, L2, L3, L4, L5, L6⟩ := L
  have hN := g.tcN
  by_cases hok : σ.tc = tl
  · -- CAS succeeds
    have hring : (stepRun σ t inp).2.ring = { σ.ring with tc := cur } := by
      simp only [stepRun, hpc]; simp only [hok]; repeat' split
      all_goals (simp only [sendDone_ring, ring_goto, ring_gotoF]; first | rfl | (simp_all))
    unfold RInv
    rw [th_eq_upd, hring]
    apply rinvR_tc I (others_not_single M t (by rw [hpc]; rfl)) (by simp only [St.ring] at *; omega) L6
      (by simp only [St.ring] at *; omega)
    · run_unfold hpc
      all_goals first
        | exact loc_of_neutral (sendDone_neutral _ t _)
        | (simp [Loc, St.goto, St.gotoF, St.flush, St.setTh, upd]; omega)
    · run_unfold hpc
      all_goals first
        | exact claim_of_neutral (sendDone_neutral _ t _)
        | (simp [St.goto, St.gotoF, St.flush, St.setTh, upd, PC.claim])
    · exact stepRun_not_add _ _ _ (by rw [hpc]; rfl)
  · -- CAS fails: nothing changes
    have hring : (stepRun σ t inp).2.ring = σ.ring := by
      simp only [stepRun, hpc]; simp only [hok]; repeat' split
      all_goals (simp only [sendDone_ring, ring_goto, ring_gotoF]; first | rfl | (simp_all))
    apply rinv_run_same' t inp I hring (by rw [hpc]; rfl)
    · run_unfold hpc
      all_goals first
        | exact loc_of_neutral (sendDone_neutral _ t _)
        | (simp [Loc, St.goto, St.gotoF, St.flush, St.setTh, upd]; omega)
    · run_unfold hpc
      all_goals first
        | exact claim_of_neutral (sendDone_neutral _ t _)
        | (simp [St.goto, St.gotoF, St.flush, St.setTh, upd, PC.claim])

end MQ

namespace MQ

theorem rinv_run_tcl {σ : St} (t inp : Nat) (h : Nat) (I : RInv σ)
    (hpc : (σ.th t).pc = .tcl h) : RInv (stepRun σ t inp).2 := by
  have L := I.loc t
  simp only [Loc, hpc] at L
  apply rinv_run_same t inp I (by rw [hpc]; rfl) (by rw [hpc]; rfl)
  · run_unfold hpc
    all_goals first
      | exact loc_of_neutral (sendDone_neutral _ t _)
      | (simp [Loc, St.goto, St.gotoF, St.flush, St.setTh, upd]; omega)
  · run_unfold hpc
    all_goals first
      | exact claim_of_neutral (sendDone_neutral _ t _)
      | (simp [St.goto, St.gotoF, St.flush, St.setTh, upd, PC.claim])

theorem rinv_run_rf {σ : St} (t inp : Nat) (m : Bool) (h : Nat) (I : RInv σ)
    (hpc : (σ.th t).pc = .rf m h) : RInv (stepRun σ t inp).2 := by
  have L := I.loc t
  simp only [Loc, hpc] at L
  apply rinv_run_same t inp I (by rw [hpc]; rfl) (by rw [hpc]; rfl)
  · run_unfold hpc
    all_goals first
      | exact loc_of_neutral (sendDone_neutral _ t _)
      | (simp [Loc, St.goto, St.gotoF, St.flush, St.setTh, upd]; exact L)
  · run_unfold hpc
    all_goals first
      | exact claim_of_neutral (sendDone_neutral _ t _)
      | (simp [St.goto, St.gotoF, St.flush, St.setTh, upd, PC.claim])

theorem rinv_run_hd {σ : St} (t inp : Nat) (m : Bool) (h : Nat) (I : RInv σ) (M : ModeOK σ)
    (hpc : (σ.th t).pc = .hd m h) : RInv (stepRun σ t inp).2 := by
  have g := I.g
  have L := I.loc t
  simp only [Loc, hpc] at L
  obtain ⟨L1, L2, L3⟩ := L
  have hclaim : (σ.th t).pc.claim = none := by rw [hpc]; rfl
  by_cases hok : σ.head = h
  · have hring : (stepRun σ t inp).2.ring = { σ.ring with head := h + 1, log := σ.ring.log ++ [(σ.th t).v] } := by
      cases m <;> simp only [stepRun, hpc] <;> (try simp only [hok]) <;> (repeat' split) <;>
        first | rfl | simp_all
    unfold RInv
    rw [th_eq_upd, hring]
    apply rinvR_head I (others_not_single M t (by rw [hpc]; rfl)) hok L2 hclaim
    · cases m <;> simp only [stepRun, hpc] <;> (try simp only [hok]) <;> (repeat' split) <;>
        first | (simp [St.goto, St.flush, St.setTh, upd]; done) | simp_all
    · cases m <;> simp only [stepRun, hpc] <;> (try simp only [hok]) <;> (repeat' split) <;>
        first | (simp [St.goto, St.flush, St.setTh, upd]; done) | simp_all
  · -- failed CAS (multi only; a single writer cannot fail)
    cases m
    · exact absurd (L3 rfl) hok
    · have hring : (stepRun σ t inp).2.ring = σ.ring := by
        simp only [stepRun, hpc]; repeat' split
        all_goals first | rfl | simp_all
      apply rinv_run_same' t inp I hring (by rw [hpc]; rfl)
      · have := g.tcN
        run_unfold hpc
        all_goals first
          | (simp_all; done)
          | (simp [Loc, St.goto, St.gotoF, St.flush, St.setTh, upd]; omega)
      · run_unfold hpc
        all_goals first
          | (simp_all; done)
          | (simp [St.goto, St.gotoF, St.flush, St.setTh, upd, PC.claim])

end MQ

namespace MQ

theorem rinv_run_tg {σ : St} (t inp : Nat) (h : Nat) (I : RInv σ)
    (hpc : (σ.th t).pc = .tg h) : RInv (stepRun σ t inp).2 := by
  have L := I.loc t
  simp only [Loc, hpc] at L
  apply rinv_run_same t inp I (by rw [hpc]; rfl) (by rw [hpc]; rfl)
  · run_unfold hpc
    simp [Loc, St.goto, St.flush, St.setTh, upd]; exact L
  · run_unfold hpc
    simp [St.goto, St.flush, St.setTh, upd, PC.claim, hpc]

theorem rinv_run_wr {σ : St} (t inp : Nat) (h : Nat) (o : Bool) (I : RInv σ)
    (hpc : (σ.th t).pc = .wr h o) : RInv (stepRun σ t inp).2 := by
  have hring : (stepRun σ t inp).2.ring =
      { σ.ring with cont := upd σ.ring.cont (h % σ.ring.N) (some (σ.th t).v) } := by
    simp only [stepRun, hpc]; rfl
  unfold RInv
  rw [th_eq_upd, hring]
  apply rinvR_cont I hpc rfl
  · simp only [stepRun, hpc]; simp [St.goto, St.flush, St.setTh, upd]
  · simp only [stepRun, hpc]; simp [St.goto, St.flush, St.setTh, upd]
  · simp only [stepRun, hpc]; simp [St.goto, St.flush, St.setTh, upd]

theorem rinv_run_ts {σ : St} (t inp : Nat) (h : Nat) (o : Bool) (I : RInv σ) (M : ModeOK σ)
    (hpc : (σ.th t).pc = .ts h o) : RInv (stepRun σ t inp).2 := by
  have hring : (stepRun σ t inp).2.ring =
      { σ.ring with tag := upd σ.ring.tag (h % σ.ring.N) (some h) } := by
    simp only [stepRun, hpc]; repeat' split
    all_goals (simp only [sendDone_ring, ring_goto]; rfl)
  unfold RInv
  rw [th_eq_upd, hring]
  apply rinvR_tag I M.regd hpc
  · run_unfold hpc
    · simp [Loc, St.goto, St.flush, St.setTh, upd]
    · exact loc_of_neutral (sendDone_neutral _ t _)
  · run_unfold hpc
    · simp [St.goto, St.flush, St.setTh, upd, PC.claim]
    · exact claim_of_neutral (sendDone_neutral _ t _)
  · exact stepRun_not_add _ _ _ (by rw [hpc]; rfl)

end MQ
