import MQ.Inv.RingRun
set_option linter.unusedSimpArgs false
namespace MQ

/-- generic wrapper for steps that change no ring word -/
theorem rinv_run_same {σ : St} (t inp : Nat) (I : RInv σ) (hnc : (σ.th t).pc.ringChanging = false)
    (hl : Loc σ.ring ((stepRun σ t inp).2.th t))
    (hc : ((stepRun σ t inp).2.th t).pc.claim = (σ.th t).pc.claim) : RInv (stepRun σ t inp).2 := by
  unfold RInv
  rw [th_eq_upd, stepRun_ring_same _ _ _ hnc]
  exact rinvR_same I hl hc

theorem rinv_run_sh {σ : St} (t inp : Nat) (m : Bool) (I : RInv σ) (M : ModeOK σ)
    (hpc : (σ.th t).pc = .sh m) : RInv (stepRun σ t inp).2 := by
  have g := I.g
  apply rinv_run_same t inp I (by rw [hpc]; rfl)
  · simp only [stepRun, hpc]
    simp [Loc, St.goto, St.flush, St.setTh, upd, St.ring]
    have := g.tcN; simp [St.ring] at this
    omega
  · simp only [stepRun, hpc]
    simp [St.goto, St.flush, St.setTh, upd, PC.claim]

end MQ
