import MQ.Inv.EpochMain
import MQ.Inv.NRMain
import MQ.Inv.Owe
/-!
# No position block is released twice

The position block of a stream is passed to `free` by the thread whose CAS took the stream off the list (`rr2`),
after it has passed the old list. `EpochInv` knows that a stream whose block is in the pipeline, or is owed by some
thread, is not on the list any more; the removal CAS is only made for a stream that is on the list
(`EStepOK.rem`: only the last consumer of a registered stream removes it).
-/
set_option linter.unusedSimpArgs false
set_option linter.unusedVariables false
set_option maxHeartbeats 4000000
namespace MQ

def Obj.isPos : Obj → Prop
  | .posO _ => True
  | _ => False

/-- the position block the thread still has to pass to `free` -/
def Th.owesP (x : Th) : Option Obj :=
  match x.pc with
  | .rr3 _ => some (.posO x.s)
  | .f1 k ob => if k.isRm1 then some (.posO x.s) else (match ob with | .posO s => some (.posO s) | _ => none)
  | .f2 k | .f3 k | .f4 k _ _ | .f5 k | .f7 k | .f8 k | .f9 k _ | .f10 k => if k.isRm1 then some (.posO x.s) else none
  | _ => none

/-- which object a `free` call is given, by continuation code -/
def shapeOK : MK → Obj → Nat → Prop
  | .rmFree1, ob, _ | .addFree, ob, _ => ∃ c, ob = .grp c
  | .rmFree2, ob, s => ob = .posO s
  | .rmTokFree _, ob, _ => ∃ k, ob = .tokO k
  | _, _, _ => False

macro "pf_case" hpc:ident : tactic =>
  `(tactic| (pin_unf $hpc:ident; (repeat' split) <;>
      simp_all [shapeOK, St.goto, St.gotoF, St.flush, St.setTh, St.setHd, upd]))

/-- every `free` call is created with the object its continuation code stands for -/
theorem f1_target (σ : St) (x inp : Nat) (k : MK) (ob : Obj) (h : ((stepRun σ x inp).2.th x).pc = .f1 k ob) :
    shapeOK k ob (σ.th x).s := by
  cases hpc : (σ.th x).pc
  case hd m h' => cases m <;> (revert h; pf_case hpc)
  case g3 m h' tl p md => cases m <;> cases md <;> (revert h; pin_unf hpc; (repeat' split) <;> simp [St.goto, St.gotoF, St.flush, St.setTh, St.setHd, upd])
  all_goals (revert h; pf_case hpc)
  all_goals (intro h1 h2; subst h1; subst h2; simp [shapeOK])


macro "po_case" hpc:ident : tactic =>
  `(tactic| (pin_unf $hpc:ident <;> (repeat' split) <;>
      simp_all [Th.owesP, MK.isRm1, PC.mgrOK, St.goto, St.gotoF, St.flush, St.setTh, St.setHd, upd]))

/-- what a thread owes changes only at the removal CAS and when it passes an object to `free` -/
theorem owesP_step (σ : St) (x inp : Nat) (h1 : ∀ c ng, (σ.th x).pc ≠ .rr2 c ng) (h2 : ∀ k ob, (σ.th x).pc ≠ .f1 k ob)
    (hok : (σ.th x).pc.mgrOK = true) :
    ((stepRun σ x inp).2.th x).owesP = (σ.th x).owesP := by
  cases hpc : (σ.th x).pc
  case rr2 c ng => exact absurd hpc (h1 c ng)
  case f1 k ob => exact absurd hpc (h2 k ob)
  case hd m h' => cases m <;> po_case hpc
  case g3 m h' tl p md => cases m <;> cases md <;> (pin_unf hpc; (repeat' split) <;> simp [Th.owesP, hpc, St.goto, St.gotoF, St.flush, St.setTh, St.setHd, upd])
  case u1 k => cases k <;> po_case hpc
  case u2 k e => cases k <;> po_case hpc
  case u3 k e => cases k <;> po_case hpc
  case gt1 k => cases k <;> po_case hpc
  case gt2 k => cases k <;> po_case hpc
  case f2 k => cases k <;> po_case hpc
  case f3 k => cases k <;> po_case hpc
  case f4 k e i => cases k <;> po_case hpc
  case f5 k => cases k <;> po_case hpc
  case f7 k => cases k <;> po_case hpc
  case f8 k => cases k <;> po_case hpc
  case f9 k c => cases k <;> po_case hpc
  case f10 k => cases k <;> po_case hpc
  all_goals po_case hpc

theorem owesP_remFacts {σ : St} {tk s : Nat} {y : Th} (h : y.owesP = some (.posO s)) (L : ELoc σ tk y) : remFacts σ s := by
  obtain ⟨pc, g', v', outer, ff, pn, ng, ns, s', single, aux⟩ := y
  cases pc <;> simp only [Th.owesP] at h <;> (try (cases h; done))
  case rr3 c => simp at h; subst h; simp only [ELoc] at L; exact L.2
  case f1 k ob =>
    simp only [ELoc] at L
    by_cases hk : k.isRm1 = true
    · simp [hk] at h; subst h; exact L.2 hk
    · simp [hk] at h
      cases ob <;> simp at h
      subst h; exact L.1
  case f2 k => by_cases hk : k.isRm1 = true <;> simp [hk] at h; subst h; simp only [ELoc] at L; exact L hk
  case f3 k => by_cases hk : k.isRm1 = true <;> simp [hk] at h; subst h; simp only [ELoc] at L; exact L hk
  case f4 k e i => by_cases hk : k.isRm1 = true <;> simp [hk] at h; subst h; simp only [ELoc] at L; exact L.1 hk
  case f5 k => by_cases hk : k.isRm1 = true <;> simp [hk] at h; subst h; simp only [ELoc] at L; exact L hk
  case f7 k => by_cases hk : k.isRm1 = true <;> simp [hk] at h; subst h; simp only [ELoc] at L; exact L hk
  case f8 k => by_cases hk : k.isRm1 = true <;> simp [hk] at h; subst h; simp only [ELoc] at L; exact L hk
  case f9 k c => by_cases hk : k.isRm1 = true <;> simp [hk] at h; subst h; simp only [ELoc] at L; exact L hk
  case f10 k => by_cases hk : k.isRm1 = true <;> simp [hk] at h; subst h; simp only [ELoc] at L; exact L hk

theorem owesP_isPos {y : Th} {ob : Obj} (h : y.owesP = some ob) : ob.isPos := by
  obtain ⟨pc, g', v', outer, ff, pn, ng, ns, s', single, aux⟩ := y
  cases pc <;> simp only [Th.owesP] at h <;> (try (cases h; done))
  case rr3 c => simp at h; subst h; trivial
  case f1 k ob' =>
    by_cases hk : k.isRm1 = true
    · simp [hk] at h; subst h; trivial
    · simp [hk] at h; cases ob' <;> simp at h; subst h; trivial
  all_goals (simp at h; obtain ⟨_, h⟩ := h; subst h; trivial)


structure PInv (σ : St) : Prop where
  o : OInv Obj.isPos Th.owesP σ
  shape : ∀ t k ob, (σ.th t).pc = .f1 k ob → shapeOK k ob (σ.th t).s

theorem not_isPos_grp (c : Nat) : ¬ (Obj.grp c).isPos := fun h => h
theorem not_isPos_tok (c : Nat) : ¬ (Obj.tokO c).isPos := fun h => h

theorem pinv_stepRun {σ : St} (x inp : Nat) (P : PInv σ) (A : AllInv σ) (hE : EStepOK σ x) :
    PInv (stepRun σ x inp).2 := by
  have hperm := pipe_stepRun x inp A.m
  have hth := fun u (hu : u ≠ x) => stepRun_th σ x inp u hu
  have hs := stepRun_sfld σ x inp
  refine ⟨?_, ?_⟩
  rotate_left
  · intro t k ob h
    by_cases e : t = x
    · subst e; rw [hs]; exact f1_target σ t inp k ob h
    · rw [hth t e] at h ⊢; exact P.shape t k ob h
  cases hpc : (σ.th x).pc
  case rr2 c ng =>
    have hp : (stepRun σ x inp).2.mgr = σ.mgr := stepRun_mgr_same σ x inp (by rw [hpc]; rfl)
    by_cases hc : σ.cur = c
    · have hin := hE.rem c ng hpc hc
      rw [← hc] at hin
      apply oinv_retire x (.posO (σ.th x).s) P.o hth (by rw [hp]) trivial
      · intro hm; exact (A.e.pipeP _ hm).2 hin
      · intro u hu ho; exact (owesP_remFacts ho (A.e.loc u)).2 hin
      · subst hc
        simp only [stepRun, hpc, if_true]
        split <;> simp [Th.owesP, MK.isRm1, St.gotoF, St.setTh, St.flush, upd]
    · apply oinv_same x P.o hth (by rw [hp])
      simp only [stepRun, hpc, hc, if_false]; simp [Th.owesP, hpc, St.goto, St.setTh, St.flush, upd]
  case f1 k ob =>
    rw [hpc] at hperm; simp only [PC.retires] at hperm
    have hsh := P.shape x k ob hpc
    cases k <;> simp only [shapeOK] at hsh
    case rmFree2 =>
      subst hsh
      apply oinv_pass x _ P.o hth hperm
      · simp [Th.owesP, hpc, MK.isRm1]
      · simp only [stepRun, hpc]; simp [Th.owesP, MK.isRm1, St.goto, St.setTh, St.flush, upd]
    case rmFree1 =>
      obtain ⟨c, hob⟩ := hsh; subst hob
      apply oinv_pass_other x _ P.o hth hperm (not_isPos_grp c)
      simp only [stepRun, hpc]; simp [Th.owesP, hpc, MK.isRm1, St.goto, St.setTh, St.flush, upd]
    case addFree =>
      obtain ⟨c, hob⟩ := hsh; subst hob
      apply oinv_pass_other x _ P.o hth hperm (not_isPos_grp c)
      simp only [stepRun, hpc]; simp [Th.owesP, hpc, MK.isRm1, St.goto, St.setTh, St.flush, upd]
    case rmTokFree kk =>
      obtain ⟨c, hob⟩ := hsh; subst hob
      apply oinv_pass_other x _ P.o hth hperm (not_isPos_tok c)
      simp only [stepRun, hpc]; simp [Th.owesP, hpc, MK.isRm1, St.goto, St.setTh, St.flush, upd]
  all_goals
    have hr : (σ.th x).pc.retires = [] := by rw [hpc]; rfl
    rw [hr, List.append_nil] at hperm
    exact oinv_same x P.o hth hperm (owesP_step σ x inp (by intro c ng; rw [hpc]; simp) (by intro k ob; rw [hpc]; simp) (A.m.ok x))


theorem owesP_none_of {y : Th} (h : ∀ o, y.pc ≠ .rr3 o) (h1 : ∀ k ob, y.pc ≠ .f1 k ob) (h2 : ∀ k, y.pc ≠ .f2 k ∧ y.pc ≠ .f3 k ∧
    y.pc ≠ .f5 k ∧ y.pc ≠ .f7 k ∧ y.pc ≠ .f8 k ∧ y.pc ≠ .f10 k ∧ (∀ a b, y.pc ≠ .f4 k a b) ∧ (∀ a, y.pc ≠ .f9 k a)) : y.owesP = none := by
  obtain ⟨pc, g', v', outer, ff, pn, ng, ns, s', single, aux⟩ := y
  cases pc <;> simp only [Th.owesP] <;> simp_all

/-- a label other than `run`: the pipeline is permuted, the thread moves between program points that owe nothing -/
theorem pinv_label {σ σ' : St} (t : Nat) (P : PInv σ)
    (hth : ∀ u, u ≠ t → σ'.th u = σ.th u)
    (hp : σ'.mgr.pipe.Perm σ.mgr.pipe)
    (hold : (σ.th t).owesP = none) (hnew : (σ'.th t).owesP = none)
    (hf : ∀ k ob, (σ'.th t).pc ≠ .f1 k ob) : PInv σ' := by
  refine ⟨oinv_same t P.o hth hp (by rw [hold, hnew]), ?_⟩
  intro u k ob h
  by_cases e : u = t
  · subst e; exact absurd h (hf k ob)
  · rw [hth u e] at h ⊢; exact P.shape u k ob h

theorem callEntry_owesP (σb : St) (t : Nat) (o : Outer) (g ng ns : Nat) (h : (σb.th t).pc = .idle) :
    ((callEntry σb t o g ng ns).th t).owesP = none ∧ ∀ k ob, ((callEntry σb t o g ng ns).th t).pc ≠ .f1 k ob := by
  unfold callEntry; cases o
  all_goals simp only []
  all_goals repeat' split
  all_goals first
    | (simp [St.goto, St.setTh, St.setHd, upd, Th.owesP]; done)
    | (simp [Th.owesP, h]; done)

theorem pinv_step {σ : St} (l : Label) (P : PInv σ) (A : AllInv σ) (h : SafeStepOK σ l) : PInv (step σ l) := by
  have hperm := pipe_step l A.m
  cases l
  case run x inp => exact pinv_stepRun x inp P A h.2
  case call t o g v ng ns =>
    simp only [List.append_nil] at hperm
    by_cases hc : callOk σ t o g ng ns = true
    rotate_left
    · have : step σ (.call t o g v ng ns) = σ := by simp only [step, hc]; rfl
      rw [this]; exact P
    have e : step σ (.call t o g v ng ns) = callEntry (callPrep σ t o g v ng ns) t o g ng ns := by
      simp only [step, hc, if_true]
    simp only [callOk, Bool.and_eq_true, decide_eq_true_eq, Bool.not_eq_true', Bool.and_eq_false_iff] at hc
    obtain ⟨⟨⟨⟨⟨hidle, _⟩, _⟩, _⟩, _⟩, _⟩ := hc
    have hp : ((callPrep σ t o g v ng ns).th t).pc = .idle := by rw [(callPrep_pc σ t o g v ng ns).1]; exact hidle
    obtain ⟨_, _, _, _, _, _, _, _, _, p10, _⟩ := callPrep_facts σ t o g v ng ns
    obtain ⟨_, _, _, _, _, _, _, q8⟩ := callEntry_frame (callPrep σ t o g v ng ns) t o g ng ns
    obtain ⟨c1, c2⟩ := callEntry_owesP (callPrep σ t o g v ng ns) t o g ng ns hp
    rw [e] at hperm ⊢
    exact pinv_label t P (fun u hu => by rw [q8 u hu, p10 u hu]) hperm (by simp [Th.owesP, hidle]) c1 c2
  case retn t =>
    simp only [List.append_nil] at hperm
    by_cases hr : ∃ r, (σ.th t).pc = .ret r
    rotate_left
    · have : step σ (.retn t) = σ := by
        simp only [step]; split
        · rename_i r h; exact absurd ⟨r, h⟩ hr
        · rfl
      rw [this]; exact P
    obtain ⟨r, hpc⟩ := hr
    have hform : ∃ f, step σ (.retn t) = { ((σ.goto t .idle).flush t) with hs := f } := by
      simp only [step, hpc]; repeat' split
      all_goals exact ⟨_, rfl⟩
    obtain ⟨f, hf⟩ := hform
    rw [hf] at hperm ⊢
    exact pinv_label t P (fun u hu => by simp [St.goto, St.flush, St.setTh, upd, hu]) hperm (by simp [Th.owesP, hpc])
      (by simp [Th.owesP, St.goto, St.flush, St.setTh, upd]) (by simp [St.goto, St.flush, St.setTh, upd])
  case arc t =>
    simp only [List.append_nil] at hperm
    by_cases hr : ∃ r, (σ.th t).pc = .arc r
    rotate_left
    · have : step σ (.arc t) = σ := by
        simp only [step]; split
        · rename_i r h; exact absurd ⟨r, h⟩ hr
        · rfl
      rw [this]; exact P
    obtain ⟨r, hpc⟩ := hr
    have e : step σ (.arc t) = arcStep σ t r := by simp only [step, hpc]
    rw [e] at hperm ⊢
    refine pinv_label t P (fun u hu => arcStep_th σ t r u hu) hperm (by simp [Th.owesP, hpc]) ?_ ?_
    · unfold arcStep; simp only []; (repeat' split) <;> simp [Th.owesP, St.goto, St.setTh, upd]
    · unfold arcStep; simp only []; (repeat' split) <;> simp [St.goto, St.setTh, upd]
  case wake t =>
    simp only [List.append_nil] at hperm
    by_cases hr : ∃ j seq, (σ.th t).pc = .wblk j seq ∧ ¬ (σ.cvWaiters.contains t || σ.wlockOwner.isSome) = true
    rotate_left
    · have : step σ (.wake t) = σ := by
        simp only [step]; split
        · rename_i j seq h
          split
          · rfl
          · rename_i h2; exact absurd ⟨j, seq, h, h2⟩ hr
        · rfl
      rw [this]; exact P
    obtain ⟨j, seq, hpc, hc⟩ := hr
    have e : step σ (.wake t) = σ.goto t (.c1 j seq .after) := by simp only [step, hpc]; rw [if_neg hc]
    rw [e] at hperm ⊢
    exact pinv_label t P (fun u hu => by simp [St.goto, St.setTh, upd, hu]) hperm (by simp [Th.owesP, hpc])
      (by simp [Th.owesP, St.goto, St.setTh, upd]) (by simp [St.goto, St.setTh, upd])

theorem pinv_init (N : Nat) (bcast : Bool) (wait : WaitK) (fut : Bool) : PInv (init N bcast wait fut) := by
  refine ⟨⟨?_, ?_, ?_⟩, ?_⟩
  · intro ob _; simp [init, Mgr.pipe, St.mgr]
  · intro t ob h; simp [init, Th.owesP] at h
  · intro t u ob _ h; simp [init, Th.owesP] at h
  · intro t k ob h; simp [init] at h

theorem pinv_safeRun {σ σ' : St} {ls : List Label} (r : SafeRun σ ls σ') (P : PInv σ) (A : AllInv σ) :
    PInv σ' ∧ AllInv σ' := by
  induction r with
  | nil => exact ⟨P, A⟩
  | cons h _ ih => exact ih (pinv_step _ P A h) (einv_step _ A h)

end MQ
