import MQ.Inv.PinRun3
import MQ.Inv.ModeMain
/-! # PinInv — labels, initial state, main theorem -/
set_option linter.unusedSimpArgs false
set_option linter.unusedVariables false
set_option maxHeartbeats 4000000
namespace MQ

/-- a transition that leaves the pin-relevant words alone and ends at an unclassified program point -/
theorem pin_plain {σ σ' : St} (x : Nat) (P : PinInv σ)
    (hth : ∀ u, u ≠ x → σ'.th u = σ.th u)
    (hN : σ'.N = σ.N) (href : σ'.ref = σ.ref) (hcont : σ'.cont = σ.cont) (hpos : σ'.pos = σ.pos)
    (hhead : σ'.head = σ.head) (htorn : σ'.torn = σ.torn)
    (hold : (σ.th x).pc.pinPos = none)
    (hnew : (σ'.th x).pc.pcls = (none, none, none, none, false)) : PinInv σ' := by
  simp only [PC.pcls, Prod.mk.injEq] at hnew
  obtain ⟨n1, n2, n3, n4, n5⟩ := hnew
  refine ⟨?_, ?_, ?_, ?_, ?_, by rw [htorn]; exact P.torn⟩
  · intro j
    obtain ⟨l, h1, h2, h3⟩ := P.cnt j
    refine ⟨l, h1, fun t => ?_, by rw [href]; exact h3⟩
    rw [h2 t]
    by_cases e : t = x
    · subst e; unfold pinned; rw [n1, hold]; simp
    · unfold pinned; rw [hth t e, hN]
  · intro u q; by_cases e : u = x
    · subst e; intro hq; rw [hq] at n5; simp at n5
    · rw [hth u e]; exact P.r5f u q
  · intro w t h' q h1 h2 h3 h4
    rw [hN] at h4; rw [hhead] at h2
    have ew : w ≠ x := by intro e; subst e; rw [n3] at h1; cases h1
    have et : t ≠ x := by intro e; subst e; rw [n2] at h3; cases h3
    rw [hth w ew] at h1 h2; rw [hth t et] at h3
    exact P.excl w t h' q h1 h2 h3 h4
  · intro u q hq; rw [hpos]
    have e : u ≠ x := by intro e; subst e; rw [n4] at hq; cases hq
    rw [hth u e] at hq ⊢; exact P.sgp u q hq
  · intro u q sg c hq; rw [hcont, hN]
    have e : u ≠ x := by intro e; subst e; rw [hq] at n5; simp at n5
    rw [hth u e] at hq; exact P.stable u q sg c hq

theorem pin_arc {σ : St} (t : Nat) (P : PinInv σ) : PinInv (step σ (.arc t)) := by
  by_cases hr : ∃ r, (σ.th t).pc = .arc r
  rotate_left
  · have : step σ (.arc t) = σ := by
      simp only [step]; split
      · rename_i r h; exact absurd ⟨r, h⟩ hr
      · rfl
    rw [this]; exact P
  obtain ⟨r, hpc⟩ := hr
  have e : step σ (.arc t) = arcStep σ t r := by simp only [step, hpc]
  rw [e]
  have hr := arcStep_ring σ t r
  have ha := arcStep_paux σ t r
  exact pin_plain t P (fun u hu => arcStep_th σ t r u hu) (congrArg Ring.N hr) (congrArg PAux.ref ha) (congrArg Ring.cont hr)
    (congrArg Ring.pos hr) (congrArg Ring.head hr) (congrArg PAux.torn ha) (by rw [hpc]; rfl)
    (pcls_of_neutral (arcStep_neutral σ t r))

theorem pin_wake {σ : St} (t : Nat) (P : PinInv σ) : PinInv (step σ (.wake t)) := by
  by_cases hr : ∃ j seq, (σ.th t).pc = .wblk j seq ∧ ¬ (σ.cvWaiters.contains t || σ.wlockOwner.isSome) = true
  rotate_left
  · have : step σ (.wake t) = σ := by
      simp only [step]; split
      · rename_i j seq h
        split
        · rfl
        · rename_i h2; exact absurd ⟨j, seq, h, h2⟩ hr
      · rfl
    rw [this]; exact P
  obtain ⟨j, seq, hpc, hc⟩ := hr
  have e : step σ (.wake t) = σ.goto t (.c1 j seq .after) := by simp only [step, hpc]; rw [if_neg hc]
  rw [e]
  exact pin_plain t P (fun u hu => by simp [St.goto, St.setTh, upd, hu]) rfl rfl rfl rfl rfl rfl (by rw [hpc]; rfl)
    (by simp [St.goto, St.setTh, upd, PC.pcls, PC.pinPos, PC.rdPos, PC.wPos, PC.sgPos])

theorem pin_retn {σ : St} (t : Nat) (P : PinInv σ) : PinInv (step σ (.retn t)) := by
  by_cases hr : ∃ r, (σ.th t).pc = .ret r
  rotate_left
  · have : step σ (.retn t) = σ := by
      simp only [step]; split
      · rename_i r h; exact absurd ⟨r, h⟩ hr
      · rfl
    rw [this]; exact P
  obtain ⟨r, hpc⟩ := hr
  have hform : ∃ f, step σ (.retn t) = { ((σ.goto t .idle).flush t) with hs := f } := by
    simp only [step, hpc]; repeat' split
    all_goals exact ⟨_, rfl⟩
  obtain ⟨f, hf⟩ := hform
  rw [hf]
  exact pin_plain t P (fun u hu => by simp [St.goto, St.flush, St.setTh, upd, hu]) rfl rfl rfl rfl rfl rfl (by rw [hpc]; rfl)
    (by simp [St.goto, St.flush, St.setTh, upd, PC.pcls, PC.pinPos, PC.rdPos, PC.wPos, PC.sgPos])

theorem callPrep_pf (σ : St) (t : Nat) (o : Outer) (g v ng ns : Nat) :
    (callPrep σ t o g v ng ns).N = σ.N ∧ (callPrep σ t o g v ng ns).ref = σ.ref ∧ (callPrep σ t o g v ng ns).cont = σ.cont ∧
    (callPrep σ t o g v ng ns).pos = σ.pos ∧ (callPrep σ t o g v ng ns).head = σ.head ∧ (callPrep σ t o g v ng ns).torn = σ.torn ∧
    (callPrep σ t o g v ng ns).bcast = σ.bcast := by
  unfold callPrep; simp only []; split <;> exact ⟨rfl, rfl, rfl, rfl, rfl, rfl, rfl⟩

theorem callEntry_pf (σb : St) (t : Nat) (o : Outer) (g ng ns : Nat) :
    (callEntry σb t o g ng ns).N = σb.N ∧ (callEntry σb t o g ng ns).ref = σb.ref ∧ (callEntry σb t o g ng ns).cont = σb.cont ∧
    (callEntry σb t o g ng ns).pos = σb.pos ∧ (callEntry σb t o g ng ns).head = σb.head ∧ (callEntry σb t o g ng ns).torn = σb.torn ∧
    (callEntry σb t o g ng ns).bcast = σb.bcast ∧
    (o ≠ .none → ((callEntry σb t o g ng ns).th t).pc.pcls = (none, none, none, none, false)) := by
  unfold callEntry; cases o
  all_goals simp only []
  all_goals repeat' split
  all_goals refine ⟨?_, ?_, ?_, ?_, ?_, ?_, ?_, ?_⟩
  all_goals first | rfl | trivial | (intro _; simp [St.goto, St.setTh, St.setHd, upd, PC.pcls, PC.pinPos, PC.rdPos, PC.wPos, PC.sgPos]; done) | (intro h; exact absurd rfl h)

theorem pin_call {σ : St} (t : Nat) (o : Outer) (g v ng ns : Nat) (P : PinInv σ) :
    PinInv (step σ (.call t o g v ng ns)) := by
  by_cases hc : callOk σ t o g ng ns = true
  rotate_left
  · have : step σ (.call t o g v ng ns) = σ := by simp only [step, hc]; rfl
    rw [this]; exact P
  have e : step σ (.call t o g v ng ns) = callEntry (callPrep σ t o g v ng ns) t o g ng ns := by
    simp only [step, hc, if_true]
  simp only [callOk, Bool.and_eq_true, decide_eq_true_eq, Bool.not_eq_true', Bool.and_eq_false_iff] at hc
  obtain ⟨⟨⟨⟨⟨hidle, halive⟩, hnbusy⟩, hkind⟩, hfresh⟩, hstream⟩ := hc
  have hnn : o ≠ .none := by intro h; subst h; simp [kindOk] at hkind
  obtain ⟨a1, a2, a3, a4, a5, a6, _⟩ := callPrep_pf σ t o g v ng ns
  obtain ⟨b1, b2, b3, b4, b5, b6, _, b8⟩ := callEntry_pf (callPrep σ t o g v ng ns) t o g ng ns
  obtain ⟨_, _, _, _, _, _, _, _, _, p10, _⟩ := callPrep_facts σ t o g v ng ns
  obtain ⟨_, _, _, _, _, _, _, q8⟩ := callEntry_frame (callPrep σ t o g v ng ns) t o g ng ns
  rw [e]
  exact pin_plain t P (fun u hu => by rw [q8 u hu, p10 u hu]) (by rw [b1, a1]) (by rw [b2, a2]) (by rw [b3, a3]) (by rw [b4, a4])
    (by rw [b5, a5]) (by rw [b6, a6]) (by rw [hidle]; rfl) (b8 hnn)

theorem pin_init (N : Nat) (bcast : Bool) (wait : WaitK) (fut : Bool) : PinInv (init N bcast wait fut) := by
  refine ⟨?_, ?_, ?_, ?_, ?_, rfl⟩
  · intro j
    refine ⟨[], List.nodup_nil, fun t => ?_, rfl⟩
    simp [pinned, init, PC.pinPos]
  · intro t p; simp [init]
  · intro w t h p h1; simp [init, PC.wPos] at h1
  · intro t p h; simp [init, PC.sgPos] at h
  · intro t p sg c h; simp [init] at h

theorem stepRun_bcast (σ : St) (x inp : Nat) : (stepRun σ x inp).2.bcast = σ.bcast := by
  by_cases h : (σ.th x).pc.pauxSrc = false
  · exact congrArg PAux.bcast (stepRun_paux_same σ x inp h)
  · cases hpc : (σ.th x).pc <;> rw [hpc] at h <;> simp [PC.pauxSrc] at h
    all_goals (simp only [stepRun, hpc]; repeat' split)
    all_goals rfl

theorem step_bcast (σ : St) (l : Label) : (step σ l).bcast = σ.bcast := by
  cases l
  case run x inp => exact stepRun_bcast σ x inp
  case call t o g v ng ns =>
    simp only [step]; split
    · rw [(callEntry_pf _ t o g ng ns).2.2.2.2.2.2.1, (callPrep_pf σ t o g v ng ns).2.2.2.2.2.2]
    · rfl
  case retn t =>
    simp only [step]; repeat' split
    all_goals rfl
  case arc t =>
    simp only [step]; split
    · exact congrArg PAux.bcast (arcStep_paux σ t _)
    · rfl
  case wake t =>
    simp only [step]; repeat' split
    all_goals rfl

theorem pin_step {σ : St} (l : Label) (hb : σ.bcast = true) (P : PinInv σ) (I : RInv σ) (M : MInv σ) : PinInv (step σ l) := by
  cases l
  case run x inp => exact pin_stepRun x inp hb P I M (modeOK_of_minv M)
  case call t o g v ng ns => exact pin_call t o g v ng ns P
  case retn t => exact pin_retn t P
  case arc t => exact pin_arc t P
  case wake t => exact pin_wake t P

/-- the four invariants together -/
structure PAll (σ : St) : Prop where
  p : PinInv σ
  i : RInv σ
  m : MInv σ
  r : RegInv σ

theorem pall_nrun {σ σ' : St} {ls : List Label} (r : NRun σ ls σ') (hb : σ.bcast = true) (A : PAll σ) :
    PAll σ' ∧ σ'.bcast = true := by
  induction r with
  | nil σ => exact ⟨A, hb⟩
  | cons h _ ih =>
      obtain ⟨h1, h2⟩ := stepOK_of A.m h
      exact ih (by rw [step_bcast]; exact hb)
        ⟨pin_step _ hb A.p A.i A.m, rinv_step _ A.i h1, minv_step _ A.m A.r h2, reginv_step _ A.r⟩

theorem pall_init (N : Nat) (wait : WaitK) (fut : Bool) (hN : 0 < N) : PAll (init N true wait fut) :=
  ⟨pin_init N true wait fut, rinv_init N true wait fut hN, minv_init N true wait fut, reginv_init N true wait fut⟩

end MQ
