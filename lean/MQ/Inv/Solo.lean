import MQ.Inv.Frame
/-!
# Solo — a try operation running alone terminates within a bound of its own steps

`mu σ t` is an explicit upper bound on the number of `run` steps thread `t` still needs before its current
`try_send` / `try_recv` / `try_recv_view` returns, *if only `t` runs* — in **any** state `σ` (reachable or not),
i.e. wherever the other threads are frozen. Every step of `t` strictly decreases it (`solo_step`).

The only loops in these programs are
* the scan of the stream list with its pointer re-validation (`g1 → g2* → g3 → g1`): once the pointer was
  loaded from the current `readers` word the validation succeeds;
* the head CAS (`hd → st → … → hd`): after a failure the thread continues with the head value the CAS returned;
* the commit CAS of a shared stream and the position re-checks (`r9 → fg → r1`, `r5 → r6 → r7 → r1`, `r3b → r7`):
  after a failure the thread continues with the position it just read.
A stale value costs one extra round (`pen`, `penr`), a fresh one none.
-/
namespace MQ

/-- `k` consecutive steps of thread `t` alone -/
def soloRun (σ : St) (t : Nat) (inps : Nat → Nat) : Nat → St
  | 0 => σ
  | k + 1 => (stepRun (soloRun σ t inps k) t (inps k)).2

/-- program points of a `try_send` / `try_recv` / `try_recv_view` call (wait strategy without notification) -/
def tryPC : Outer → PC → Bool
  | .trySend, pc =>
      match pc with
      | .s0 | .u1 .sendStart | .u2 .sendStart _ | .u3 .sendStart _ | .m1 | .sh _ | .st _ _ | .g1 _ _ _
      | .g2 _ _ _ _ _ _ | .g3 _ _ _ _ _ | .tcs _ _ | .tcc _ _ _ | .tcl _ | .rf _ _ | .hd _ _ | .tg _ | .wr _ _
      | .ts _ _ | .od _ | .ret _ => true
      | _ => false
  | .tryRecv, pc | .tryRecvView, pc =>
      match pc with
      | .r0 | .u1 .recvStart | .u2 .recvStart _ | .u3 .recvStart _ | .la1 | .la2 | .is1 | .r1 _ _ | .r2 _ _
      | .r3 _ _ | .r3b _ _ | .r4 _ | .r5 _ _ | .r6 _ | .r7 _ | .rd _ _ | .rc _ _ _ | .r8 _ _ | .r9 _ _ _ | .fg _ _
      | .v1 _ | .v2 _ | .v3 _ | .vw _ _ | .vd _ _ | .v4 _ _ | .ret _ => true
      | _ => false
  | _, _ => false

/-- the thread is inside a try operation on a queue whose wait strategy needs no notification -/
structure TryWF (σ : St) (t : Nat) : Prop where
  pc : tryPC (σ.th t).outer (σ.th t).pc = true
  nn : σ.wait.needsNotify = false
  nf : (σ.hs (σ.th t).g).fut = false

/-- length of the current stream list, at least one -/
def scanAll (σ : St) : Nat := max 1 (σ.groups σ.cur).length
/-- steps left in the scan of list `p` from index `i` -/
def scanLeft (σ : St) (p i : Nat) : Nat := max 1 ((σ.groups p).length - i)

/-- upper bound on the own steps left -/
def mu (σ : St) (t : Nat) : Nat :=
  let K := scanAll σ
  let pen (h : Nat) : Nat := if σ.head = h then 0 else K + 12
  let s := (σ.th t).s
  let penr (p : Nat) : Nat := if σ.pos s = p then 0 else 12
  match (σ.th t).pc with
  | .s0 => K + 17 | .u1 .sendStart => K + 16 | .u2 .sendStart _ => K + 15 | .u3 .sendStart _ => K + 14
  | .m1 => K + 13 | .sh _ => K + 12
  | .st _ h => K + 11 + pen h
  | .g1 _ h _ => K + 10 + pen h
  | .g2 _ h _ p i _ => scanLeft σ p i + (if σ.cur = p then 9 else K + 11) + pen h
  | .g3 _ h _ p _ => (if σ.cur = p then 9 else K + 11) + pen h
  | .tcs h _ => 8 + pen h | .tcc h _ _ => 8 + pen h | .tcl h => 8 + pen h
  | .rf _ h => 7 + pen h
  | .hd _ h => 6 + pen h
  | .tg _ => 5 | .wr _ _ => 4 | .ts _ _ => 3 | .od _ => 2
  | .r0 => 17 | .u1 .recvStart => 16 | .u2 .recvStart _ => 15 | .u3 .recvStart _ => 14
  | .is1 => 13 | .la1 => 12 | .la2 => 11
  | .r1 p _ => 9 + penr p
  | .r4 p => 7 + penr p
  | .r5 p _ => 6 + penr p
  | .rd p _ => 5 + penr p
  | .rc p _ _ => 4 + penr p
  | .r8 p _ => 3 + penr p
  | .r9 p _ _ => 2 + penr p
  | .r2 p _ => 4 + penr p
  | .r3 p _ => 3 + penr p
  | .r3b p _ => 2 + penr p
  | .r6 _ => 11
  | .r7 _ => 10
  | .fg p _ => 10 + penr p
  | .v1 _ => 5 | .vw _ _ => 4 | .vd _ _ => 3 | .v4 _ _ => 2 | .v2 _ => 3 | .v3 _ => 2
  | _ => 0

/-- kinds of events that may have to wait for another thread (a lock that is held, a condvar, a sleep) or that
give the processor away -/
def Kind.blocking : Kind → Bool
  | .lock | .cvwait | .sleep | .yield_ => true
  | _ => false

/-- the list a scanning thread is in -/
def PC.scanned : PC → Nat
  | .g2 _ _ _ p _ _ => p
  | _ => 0

/-- the bound is linear in the length of the stream list(s) being scanned -/
theorem mu_le (σ : St) (t : Nat) :
    mu σ t ≤ 3 * scanAll σ + 40 + (σ.groups (σ.th t).pc.scanned).length := by
  unfold mu scanLeft
  cases hpc : (σ.th t).pc <;> simp only [PC.scanned] <;> (repeat' split) <;> first | omega | (exfalso; simp_all; done)

end MQ
