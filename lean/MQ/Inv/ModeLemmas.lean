import MQ.Inv.ModeFrame
/-! # ModeInv — how a thread's facts survive changes of the handle table -/
set_option linter.unusedSimpArgs false
set_option linter.unusedVariables false
namespace MQ

theorem ni_of_true {pc : PC} {f : PC → Bool} (h : f pc = true) (h0 : f .idle = false) : pc ≠ .idle := by
  intro e; rw [e, h0] at h; cases h

/-- everything `TLoc` says about `y` only looks at: the record of `y.g` (if `y` is inside a call), the record of
`y.ng` (if `y` is creating it), membership of these two handles in the counted lists, emptiness / singleton-ness
of the lists of `y.s` and `y.ns`, and whether `y.s` has been established -/
theorem TLoc_transfer {σ σ' : St} {y : Th} (L : TLoc σ y)
    (hg : y.pc ≠ .idle → σ'.hs y.g = σ.hs y.g)
    (hng : y.creating → σ'.hs y.ng = σ.hs y.ng)
    (hslg : y.pc ≠ .idle → y.g ∈ σ.sl → y.g ∈ σ'.sl)
    (hslng : y.creating → y.ng ∈ σ.sl → y.ng ∈ σ'.sl)
    (hclg : y.pc ≠ .idle → ∀ s, y.g ∈ σ.cl s → y.g ∈ σ'.cl s)
    (hclng : y.creating → ∀ s, y.ng ∈ σ.cl s → y.ng ∈ σ'.cl s)
    (hnilr : y.pc.remPC = true → σ.cl y.s = [] → σ.est y.s = true → σ'.cl y.s = [])
    (hnila : y.pc.addPC = true → σ.cl y.ns = [] → σ'.cl y.ns = [])
    (hest : σ.est y.s = true → σ'.est y.s = true)
    (hsing : y.pc ≠ .idle → σ.cl y.s = [y.g] → σ'.cl y.s = [y.g]) : TLoc σ' y := by
  obtain ⟨l1, l2, l3, l4, l5, l6, ls, l7, l8, l9, l10, l11, l12, l13, l14, l15, l16, l17, l18, l19, l20, l22, l23⟩ := L
  refine ⟨?_, l2, ?_, l4, ?_, l6, ?_, ?_, ?_, ?_, ?_, ?_, ?_, ?_, ?_, ?_, ?_, ?_, ?_, ?_, ?_, l22, ?_⟩
  · intro h; rw [hg h]; exact l1 h
  · intro h h2; rw [hg h]; exact l3 h h2
  · intro h h2
    rw [hg h] at h2 ⊢
    obtain ⟨a, b⟩ := l5 h h2
    exact ⟨fun hs => hslg h (a hs), fun hs => hclg h _ (b hs)⟩
  · intro h; rw [hg h]; exact ls h
  · intro h
    have hi := ni_of_true h rfl
    rw [hg hi]; obtain ⟨a, b⟩ := l7 h; exact ⟨hslg hi a, b⟩
  · intro h
    have hi := ni_of_true h rfl
    rw [hg hi]; exact l8 h
  · intro h
    have hi := ni_of_true h rfl
    rw [hg hi]; obtain ⟨a, b⟩ := l9 h; exact ⟨hclg hi _ a, b⟩
  · intro h h2 h3
    have hi := ni_of_true h rfl
    rw [hg hi]; exact l10 h h2 h3
  · intro h
    have hi := ni_of_true h rfl
    rw [hg hi]; exact l11 h
  · intro h
    have hi := ni_of_true h rfl
    rw [hg hi, hng (Or.inl h)]
    obtain ⟨a, b, c, d, e⟩ := l12 h
    exact ⟨hslg hi a, b, c, d, e⟩
  · intro h
    have hi : y.pc ≠ .idle := by rw [h]; simp
    rw [hg hi, hng (Or.inr (Or.inl h))]
    obtain ⟨a, b, c, d, e, f⟩ := l13 h
    exact ⟨hclg hi _ a, b, c, d, e, f⟩
  · intro h
    have hi : y.pc ≠ .idle := by rw [h]; simp
    rw [hg hi]; exact ⟨hslg hi (l14 h).1, (l14 h).2⟩
  · intro h
    have hi : y.pc ≠ .idle := by rcases h with h | h <;> (rw [h]; simp)
    rw [hg hi]; exact ⟨hclg hi _ (l15 h).1, (l15 h).2⟩
  · intro h
    have hi := ni_of_true h rfl
    obtain ⟨a, b⟩ := l16 h
    exact ⟨hnilr h a b, hest b⟩
  · intro h
    have hi := ni_of_true h rfl
    rw [hg hi, hng (Or.inr (Or.inr (Or.inl h)))]
    obtain ⟨a, b, c, d, e⟩ := l17 h
    exact ⟨hclg hi _ a, b, hnila h c, d, e⟩
  · intro h
    have hi : y.pc ≠ .idle := by rw [h]; simp
    rw [hg hi]; obtain ⟨a, b⟩ := l18 h; exact ⟨hclg hi _ a, b⟩
  · intro h h2
    have hi : y.pc ≠ .idle := by rw [h]; simp
    exact hsing hi (l19 h h2)
  · intro h h2
    have hc : y.creating := Or.inr (Or.inr (Or.inr ⟨h, h2⟩))
    rw [hng hc]
    obtain ⟨a, b, c, d, e⟩ := l20 h h2
    exact ⟨a, b, c, fun hs => hslng hc (d hs), fun hs => hclng hc _ (e hs)⟩
  · intro h
    have hi : y.pc ≠ .idle := by intro e; simp [Th.sgOn, e, PC.sgFlag] at h
    exact hsing hi (l23 h)

/-- same table: same facts -/
theorem TLoc_congr {σ σ' : St} {y : Th} (h : σ'.htab = σ.htab) (hest : σ.est y.s = true → σ'.est y.s = true)
    (L : TLoc σ y) : TLoc σ' y := by
  have h1 : σ'.sl = σ.sl := congrArg HTab.sl h
  have h2 : σ'.cl = σ.cl := congrArg HTab.cl h
  have h3 : σ'.hs = σ.hs := congrArg HTab.hs h
  apply TLoc_transfer L
  · intro _; rw [h3]
  · intro _; rw [h3]
  · intro _ ha; rw [h1]; exact ha
  · intro _ ha; rw [h1]; exact ha
  · intro _ s ha; rw [h2]; exact ha
  · intro _ s ha; rw [h2]; exact ha
  · intro _ hs _; rw [h2]; exact hs
  · intro _ hs; rw [h2]; exact hs
  · exact hest
  · intro _ hs; rw [h2]; exact hs

end MQ
