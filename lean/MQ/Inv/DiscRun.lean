import MQ.Inv.DiscDefs
/-! # DiscInv — preservation -/
set_option linter.unusedSimpArgs false
set_option linter.unusedVariables false
set_option maxHeartbeats 4000000
namespace MQ

theorem srcNeutral_dpos {pc : PC} (h : pc.srcNeutral = true) : pc.dpos = none := by
  cases pc <;> simp [PC.srcNeutral] at h <;> rfl

theorem stepRun_writers (σ : St) (x inp : Nat) (h1 : (σ.th x).pc ≠ .cs1) (h2 : (σ.th x).pc ≠ .ds1) :
    (stepRun σ x inp).2.writers = σ.writers := by
  by_cases hs : (σ.th x).pc.hSrc = false
  · exact congrArg HTab.writers (stepRun_htab_same σ x inp hs)
  · cases hpc : (σ.th x).pc <;> rw [hpc] at hs <;> simp [PC.hSrc] at hs
    case cs1 => exact absurd hpc h1
    case ds1 => exact absurd hpc h2
    all_goals (simp only [stepRun, hpc, stepRun.stepLa2]; repeat' split)
    all_goals rfl

theorem disc_run_neutral {σ : St} (x inp : Nat) (D : DInv σ) (M : MInv σ) (h : (σ.th x).pc.srcNeutral = true) :
    DInv (stepRun σ x inp).2 := by
  have hr := stepRun_ring_same σ x inp (srcNeutral_not_changing h)
  have hn := neutral_dpos (stepRun_neutral σ x inp h)
  by_cases hs : (σ.th x).pc ≠ .cs1 ∧ (σ.th x).pc ≠ .ds1
  · exact disc_mono x D (fun u hu => stepRun_th σ x inp u hu) (congrArg Ring.N hr) (stepRun_writers σ x inp hs.1 hs.2)
      (congrArg Ring.tag hr) (fun p b hq => by rw [hn] at hq; cases hq)
  · -- a sender clone or drop: no thread is inside the double check
    have hg : (σ.th x).g ∈ σ.sl := by
      by_cases h1 : (σ.th x).pc = .cs1
      · exact ((M.thr x).cs (by rw [h1]; rfl)).1
      · by_cases h2 : (σ.th x).pc = .ds1
        · exact ((M.thr x).ds h2).1
        · exact absurd ⟨h1, h2⟩ hs
    refine ⟨fun t p b hq => ?_⟩
    exfalso
    by_cases e : t = x
    · subst e; rw [hn] at hq; cases hq
    · rw [stepRun_th σ x inp t e] at hq
      have := no_sender_of_chk D M hq
      rw [this] at hg; cases hg

macro "disc_cls" hpc:ident : tactic =>
  `(tactic| (pin_unf $hpc:ident; (repeat' split) <;>
      simp_all [PC.dpos, St.goto, St.gotoF, St.flush, St.setTh, St.setHd, upd]))

/-- steps outside the double check that do not publish a tag -/
macro "disc_case" x:ident inp:ident D:ident hpc:ident : tactic =>
  `(tactic| (
    apply disc_mono $x:ident $D:ident (fun u hu => stepRun_th _ $x:ident $inp:ident u hu) (by pin_fld $hpc:ident)
      (by pin_fld $hpc:ident) (by pin_fld $hpc:ident)
    intro p b hq
    rw [$hpc:ident]
    revert hq
    disc_cls $hpc:ident))

theorem disc_run_other {σ : St} (x inp : Nat) (D : DInv σ) (M : MInv σ) (hn : (σ.th x).pc.srcNeutral = false)
    (hts : ∀ h o, (σ.th x).pc ≠ .ts h o) : DInv (stepRun σ x inp).2 := by
  cases hpc : (σ.th x).pc
  all_goals first | (rw [hpc] at hn; cases hn; done) | skip
  case sh m => cases m <;> disc_case x inp D hpc
  case st m h' => cases m <;> disc_case x inp D hpc
  case g1 m h' tl => cases m <;> disc_case x inp D hpc
  case g2 m h' tl p i md => cases m <;> disc_case x inp D hpc
  case g3 m h' tl p md =>
    cases m <;> cases md <;>
    · apply disc_mono x D (fun u hu => stepRun_th _ x inp u hu) (by pin_fld hpc) (by pin_fld hpc) (by pin_fld hpc)
      intro p b hq
      rw [hpc]
      revert hq
      pin_unf hpc
      (repeat' split) <;> simp [PC.dpos, St.goto, St.gotoF, St.flush, St.setTh, St.setHd, upd]
  case tcs h' c => disc_case x inp D hpc
  case tcc h' tl c => disc_case x inp D hpc
  case tcl h' => disc_case x inp D hpc
  case ts h' o => exact absurd hpc (hts h' o)
  case tg h' => disc_case x inp D hpc
  case rf m h' => disc_case x inp D hpc
  case hd m h' => cases m <;> disc_case x inp D hpc
  case wr h' o => disc_case x inp D hpc
  case la1 => disc_case x inp D hpc
  case la2 => disc_case x inp D hpc
  case is1 => disc_case x inp D hpc
  case v1 p => disc_case x inp D hpc
  case v2 p => disc_case x inp D hpc
  case v3 p => disc_case x inp D hpc
  case vw p c => disc_case x inp D hpc
  case vd p c => disc_case x inp D hpc
  case v4 p c => disc_case x inp D hpc
  case rr1 => disc_case x inp D hpc
  case rr2 c ng => disc_case x inp D hpc
  case a1 => disc_case x inp D hpc
  case a2 c => disc_case x inp D hpc
  case a3 c raw ng => disc_case x inp D hpc
  case r1 p sg => disc_case x inp D hpc
  case r2 p sg => disc_case x inp D hpc
  case r3 p sg =>
    have := D.chk x p false (by rw [hpc]; rfl)
    disc_case x inp D hpc
    intro e _; subst e; assumption
  case r3b p sg => disc_case x inp D hpc
  case r4 p => disc_case x inp D hpc
  case r5 p sg => disc_case x inp D hpc
  case r6 p => disc_case x inp D hpc
  case r7 sg => disc_case x inp D hpc
  case r8 p c => disc_case x inp D hpc
  case r9 p sg c => disc_case x inp D hpc
  case rd p sg => disc_case x inp D hpc
  case rc p sg c => disc_case x inp D hpc
  case fg p sg => disc_case x inp D hpc

/-- the tag store: while a thread is inside the double check nobody publishes -/
theorem disc_run_ts {σ : St} (x inp h : Nat) (o : Bool) (D : DInv σ) (M : MInv σ) (hpc : (σ.th x).pc = .ts h o) :
    DInv (stepRun σ x inp).2 := by
  have hg := ((M.thr x).snd (by rw [hpc]; rfl)).1
  refine ⟨fun t p b hq => ?_⟩
  exfalso
  by_cases e : t = x
  · subst e; revert hq; disc_cls hpc
  · rw [stepRun_th σ x inp t e] at hq
    have := no_sender_of_chk D M hq
    rw [this] at hg; cases hg

theorem disc_stepRun {σ : St} (x inp : Nat) (D : DInv σ) (M : MInv σ) : DInv (stepRun σ x inp).2 := by
  by_cases hn : (σ.th x).pc.srcNeutral = true
  · exact disc_run_neutral x inp D M hn
  · by_cases hts : ∃ h o, (σ.th x).pc = .ts h o
    · obtain ⟨h, o, hpc⟩ := hts; exact disc_run_ts x inp h o D M hpc
    · exact disc_run_other x inp D M (by simpa using hn) (fun h o e => hts ⟨h, o, e⟩)

end MQ
