import MQ.Inv.RingSteps
/-!
# RingInv — connecting `stepRun` with the preservation lemmas
-/
set_option linter.unusedSimpArgs false
namespace MQ

theorem th_eq_upd (σ : St) (t inp : Nat) :
    (stepRun σ t inp).2.th = upd σ.th t ((stepRun σ t inp).2.th t) := by
  funext u
  by_cases e : u = t
  · subst e; simp [upd]
  · simp [upd, e, stepRun_th _ _ _ _ e]

/-- pcs whose step may change a ring word -/
def PC.ringChanging : PC → Bool
  | .tcs _ _ | .tcc _ _ _ | .hd _ _ | .wr _ _ | .ts _ _ | .r9 _ _ _ | .v4 _ _
  | .a2 _ | .a3 _ _ _ | .rr1 | .rr2 _ _ => true
  | _ => false

theorem stepLa2_ring (σ0 σ : St) (t : Nat) (x : Th) (s : Nat) : (stepRun.stepLa2 σ0 σ t x s).2.ring = σ.ring := by
  unfold stepRun.stepLa2; simp only []; repeat' split
  all_goals rfl

theorem recvDropEnd_ring (σ : St) (t : Nat) (x : Th) (f : List Ord) : (stepRun.recvDropEnd σ t x f).ring = σ.ring := by
  unfold stepRun.recvDropEnd; simp only []; repeat' split
  all_goals rfl

theorem startNotify2_ring (σ : St) (t : Nat) : (stepRun.startNotify2 σ t).ring = σ.ring := rfl

set_option maxHeartbeats 1000000 in
theorem stepRun_ring_same (σ : St) (t inp : Nat) (h : (σ.th t).pc.ringChanging = false) :
    (stepRun σ t inp).2.ring = σ.ring := by
  unfold stepRun
  simp only []
  split
  all_goals (first | (rename_i heq; rw [heq] at h; simp [PC.ringChanging] at h; done) | skip)
  all_goals (repeat' split)
  all_goals first
    | rfl
    | (simp only [sendDone_ring, recvDone_ring, afterNotify_ring, startNotify_ring, teardownStart_ring,
        startWait_ring, checkDone_ring, waitDone_ring, stepLa2_ring, recvDropEnd_ring, startNotify2_ring,
        ring_setTh, ring_goto, ring_gotoF, ring_setHd, ring_flush] <;> rfl)

end MQ

