import MQ.Inv.RingRun3
set_option linter.unusedSimpArgs false
namespace MQ

theorem rinv_run_a1 {σ : St} (t inp : Nat) (I : RInv σ)
    (hpc : (σ.th t).pc = .a1) : RInv (stepRun σ t inp).2 := by
  have L := I.loc t
  simp only [Loc, hpc] at L
  have hring := stepRun_ring_same σ t inp (by rw [hpc]; rfl)
  unfold RInv
  rw [th_eq_upd, hring]
  apply rinvR_same I
  · run_unfold hpc
    simp [Loc, St.goto, St.flush, St.setTh, upd]; exact L
  · run_unfold hpc
    simp [St.goto, St.flush, St.setTh, upd, PC.claim]
  · intro _
    refine ⟨by rw [hpc]; rfl, ?_⟩
    simp only [stepRun, hpc]; simp [St.goto, St.flush, St.setTh, upd]

theorem rinv_run_a2 {σ : St} (t inp : Nat) (c : Nat) (I : RInv σ)
    (hpc : (σ.th t).pc = .a2 c) : RInv (stepRun σ t inp).2 := by
  have g := I.g
  have L := I.loc t
  simp only [Loc, hpc] at L
  obtain ⟨L1, L2, L3⟩ := L
  have hcl := g.curlt
  have hring : (stepRun σ t inp).2.ring =
      { σ.ring with nextGrp := σ.ring.nextGrp + 1,
                    groups := upd σ.ring.groups σ.ring.nextGrp (σ.ring.groups c ++ [(σ.th t).ns]) } := by
    simp only [stepRun, hpc]; rfl
  unfold RInv
  rw [th_eq_upd, hring]
  apply rinvR_alloc I
  · simp only [stepRun, hpc]
    simp [Loc, St.goto, St.gotoF, St.flush, St.setTh, upd]
    simp only [St.ring] at *
    have hne : c ≠ σ.nextGrp := by omega
    refine ⟨L1, L2, by omega, by omega, ?_⟩
    simp [hne]
  · simp only [stepRun, hpc]; simp [St.goto, St.gotoF, St.flush, St.setTh, upd, PC.claim]
  · intro _
    refine ⟨by rw [hpc]; rfl, ?_⟩
    simp only [stepRun, hpc]; simp [St.goto, St.gotoF, St.flush, St.setTh, upd]

theorem rinv_run_rr1 {σ : St} (t inp : Nat) (I : RInv σ)
    (hpc : (σ.th t).pc = .rr1) : RInv (stepRun σ t inp).2 := by
  have g := I.g
  have hcl := g.curlt
  have hring : (stepRun σ t inp).2.ring =
      { σ.ring with nextGrp := σ.ring.nextGrp + 1,
                    groups := upd σ.ring.groups σ.ring.nextGrp ((σ.ring.groups σ.ring.cur).filter (· != (σ.th t).s)) } := by
    simp only [stepRun, hpc]; rfl
  unfold RInv
  rw [th_eq_upd, hring]
  apply rinvR_alloc I
  · simp only [stepRun, hpc]
    simp [Loc, St.goto, St.flush, St.setTh, upd]
    simp only [St.ring] at *
    have hne : σ.cur ≠ σ.nextGrp := by omega
    refine ⟨by omega, by omega, ?_⟩
    simp [hne]
  · simp only [stepRun, hpc]; simp [St.goto, St.flush, St.setTh, upd, PC.claim]
  · intro h
    exfalso
    have : ((stepRun σ t inp).2.th t).pc.addPC = false := stepRun_not_add _ _ _ (by rw [hpc]; rfl)
    rw [this] at h; cases h

end MQ

namespace MQ

theorem rinv_run_rr2 {σ : St} (t inp : Nat) (c ng : Nat) (I : RInv σ)
    (hne : (stepRun σ t inp).2.groups (stepRun σ t inp).2.cur ≠ [])
    (hpc : (σ.th t).pc = .rr2 c ng) : RInv (stepRun σ t inp).2 := by
  have g := I.g
  have L := I.loc t
  simp only [Loc, hpc] at L
  obtain ⟨L1, L2, L3⟩ := L
  have hcl := g.curlt
  have hna : ((stepRun σ t inp).2.th t).pc.addPC = false := stepRun_not_add _ _ _ (by rw [hpc]; rfl)
  by_cases hok : σ.cur = c
  · have hring : (stepRun σ t inp).2.ring = { σ.ring with cur := ng } := by
      simp only [stepRun, hpc, hok]; repeat' split
      all_goals first | rfl | simp_all
    have hcur' : (stepRun σ t inp).2.cur = ng := by
      have := congrArg Ring.cur hring; simpa [St.ring] using this
    have hgr' : (stepRun σ t inp).2.groups = σ.groups := by
      have := congrArg Ring.groups hring; simpa [St.ring] using this
    rw [hcur', hgr'] at hne
    unfold RInv
    rw [th_eq_upd, hring]
    apply rinvR_remove I (by simp only [St.ring] at *; omega) L2 _ hne
    · simp only [stepRun, hpc, hok]; repeat' split
      all_goals first | (simp [Loc, St.goto, St.gotoF, St.flush, St.setTh, upd]; done) | simp_all
    · simp only [stepRun, hpc, hok]; repeat' split
      all_goals first | (simp [St.goto, St.gotoF, St.flush, St.setTh, upd, PC.claim]; done) | simp_all
    · exact hna
    · intro s' hs'
      simp only [St.ring] at L3 hs' ⊢
      rw [L3] at hs'
      simp only [reg]
      rw [hok]
      exact (List.mem_filter.mp hs').1
  · have hring : (stepRun σ t inp).2.ring =
        { σ.ring with nextGrp := σ.ring.nextGrp + 1,
                      groups := upd σ.ring.groups σ.ring.nextGrp ((σ.ring.groups σ.ring.cur).filter (· != (σ.th t).s)) } := by
      simp only [stepRun, hpc]; simp only [hok]; repeat' split
      all_goals first | rfl | simp_all
    unfold RInv
    rw [th_eq_upd, hring]
    apply rinvR_alloc I
    · simp only [stepRun, hpc]; simp only [hok]; repeat' split
      all_goals first
        | (simp_all; done)
        | (simp [Loc, St.goto, St.flush, St.setTh, upd]
           simp only [St.ring] at *
           have hne2 : σ.cur ≠ σ.nextGrp := by omega
           exact ⟨by omega, by omega, by simp [hne2]⟩)
    · simp only [stepRun, hpc]; simp only [hok]; repeat' split
      all_goals first | (simp_all; done) | (simp [St.goto, St.flush, St.setTh, upd, PC.claim])
    · intro h; rw [hna] at h; cases h

end MQ

namespace MQ

theorem rinv_run_a3 {σ : St} (t inp : Nat) (c raw ng : Nat) (I : RInv σ) (M : ModeOK σ)
    (hut : σ.cur = c → σ.pos (σ.th t).s = raw)
    (hpc : (σ.th t).pc = .a3 c raw ng) : RInv (stepRun σ t inp).2 := by
  have g := I.g
  have L := I.loc t
  simp only [Loc, hpc] at L
  obtain ⟨L1, L2, L3, L4, L5⟩ := L
  have hcl := g.curlt
  have hreg := M.regadd t (by rw [hpc]; rfl)
  by_cases hok : σ.cur = c
  · have hraw := hut hok
    subst hok
    have hring : (stepRun σ t inp).2.ring = σ.ring.added ng (σ.th t).ns raw := by
      simp only [stepRun, hpc, ↓reduceIte]; repeat' split
      all_goals rfl
    unfold RInv
    rw [th_eq_upd, hring]
    apply rinvR_add I M.regd (by rw [hpc]; rfl) rfl (by simp only [St.ring] at *; omega) L4
      (by simp only [St.ring] at *; exact L5) hreg hraw L2 L1
    · simp only [stepRun, hpc, ↓reduceIte]; repeat' split
      all_goals (simp [Loc, St.goto, St.gotoF, St.flush, St.setTh, upd])
    · simp only [stepRun, hpc, ↓reduceIte]; repeat' split
      all_goals (simp [St.goto, St.gotoF, St.flush, St.setTh, upd, PC.claim])
    · simp only [stepRun, hpc, ↓reduceIte]; repeat' split
      all_goals (simp [St.goto, St.gotoF, St.flush, St.setTh, upd, PC.addPC])
  · have hring : (stepRun σ t inp).2.ring = σ.ring := by
      simp only [stepRun, hpc, hok, ↓reduceIte]; rfl
    unfold RInv
    rw [th_eq_upd, hring]
    apply rinvR_same I
    · simp only [stepRun, hpc, hok, ↓reduceIte]
      simp [Loc, St.goto, St.gotoF, St.flush, St.setTh, upd]; exact ⟨L1, L2, Nat.le_refl _⟩
    · simp only [stepRun, hpc, hok, ↓reduceIte]
      simp [St.goto, St.gotoF, St.flush, St.setTh, upd, PC.claim]
    · intro _
      refine ⟨by rw [hpc]; rfl, ?_⟩
      simp only [stepRun, hpc, hok, ↓reduceIte]
      simp [St.goto, St.gotoF, St.flush, St.setTh, upd]

end MQ
