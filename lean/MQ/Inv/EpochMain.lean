import MQ.Inv.EpochRun
import MQ.Model.Hyp
/-! # EpochInv holds in every reachable state (under the ownership and mutex hypotheses) -/
set_option linter.unusedSimpArgs false
set_option linter.unusedVariables false
namespace MQ

/-- a label other than `run`: `t` moves between program points without facts, no data changes, and the token
of every thread that is inside a call stays the same -/
theorem einv_of_frame {σ σ' : St} (t : Nat) (I : EInv σ)
    (hth : ∀ u, u ≠ t → σ'.th u = σ.th u)
    (htok : ∀ u, u ≠ t → (σ.th u).pc ≠ .idle → tokOf σ' u = tokOf σ u)
    (hd : σ'.edata = σ.edata) (hp : σ'.mgr.pipe = σ.mgr.pipe)
    (ht : (σ'.th t).pc.ePhase = false) : EInv σ' := by
  have h6 : σ'.groups = σ.groups := congrArg EData.groups hd
  have h7 : σ'.cur = σ.cur := congrArg EData.cur hd
  have h8 : σ'.est = σ.est := congrArg EData.est hd
  refine ⟨?_, ?_, ?_⟩
  · intro k hk; rw [hp] at hk; rw [h7]; exact I.pipeG k hk
  · intro s hs; rw [hp] at hs
    have := I.pipeP s hs
    simp only [remFacts, h6, h7, h8] at this ⊢; exact this
  · intro u
    by_cases e : u = t
    · subst e; exact ELoc_of_not_phase ht
    · rw [hth u e]
      by_cases hi : (σ.th u).pc = .idle
      · exact ELoc_of_not_phase (by rw [hi]; rfl)
      · rw [htok u e hi]; exact ELoc_congr hd (I.loc u)

@[simp] theorem edata_setTh (σ : St) (t f) : (σ.setTh t f).edata = σ.edata := rfl
@[simp] theorem edata_goto (σ : St) (t pc) : (σ.goto t pc).edata = σ.edata := rfl
@[simp] theorem edata_setHd (σ : St) (g f) : (σ.setHd g f).edata = σ.edata := rfl
@[simp] theorem edata_flush (σ : St) (t) : (σ.flush t).edata = σ.edata := rfl

theorem edata_of_ring_mgr {σ σ' : St} (hm : σ'.mgr = σ.mgr) (hr : σ'.ereg = σ.ereg) : σ'.edata = σ.edata :=
  edata_of hm hr

/-- ownership hypotheses for the labels that touch the handle table -/
def ELabelOK (σ : St) : Label → Prop
  | .run x _ => EStepOK σ x
  | .call t o g _ ng _ => ∀ u, u ≠ t → (σ.th u).pc ≠ .idle → (σ.th u).g ≠ g ∧ (o.creates = true → (σ.th u).g ≠ ng)
  | .retn t => ∀ u, u ≠ t → (σ.th u).pc ≠ .idle →
      (σ.th u).g ≠ (σ.th t).g ∧ ((σ.th t).outer.creates = true → (σ.th u).g ≠ (σ.th t).ng)
  | _ => True

theorem callPrep_edata (σ : St) (t : Nat) (o : Outer) (g v ng ns : Nat) : (callPrep σ t o g v ng ns).edata = σ.edata := by
  unfold callPrep; simp only []; split <;> rfl

theorem callEntry_ereg (σ1 : St) (t : Nat) (o : Outer) (g ng ns : Nat) : (callEntry σ1 t o g ng ns).ereg = σ1.ereg :=
  ereg_of_ring (callEntry_ring σ1 t o g ng ns)

theorem callEntry_eplain (σ1 : St) (t : Nat) (o : Outer) (g ng ns : Nat) (hp : (σ1.th t).pc = .idle) :
    ((callEntry σ1 t o g ng ns).th t).pc.ePhase = false := by
  unfold callEntry; simp only []; repeat' split
  all_goals simp [St.goto, St.setTh, St.setHd, upd, PC.ePhase, hp]

/-- the token of a handle other than `g` and `ng` is not touched by a call on `g` that creates `ng` -/
theorem callStep_tok (σ : St) (t : Nat) (o : Outer) (g v ng ns g' : Nat) (h1 : o.creates = true → g' ≠ ng) (h2 : g' ≠ g) :
    ((callEntry (callPrep σ t o g v ng ns) t o g ng ns).hs g').tok = (σ.hs g').tok := by
  unfold callEntry callPrep; simp only []; repeat' split
  all_goals simp [St.goto, St.setTh, St.setHd, upd, h2, Outer.creates] at h1 ⊢
  all_goals simp [h1]

theorem einv_call {σ : St} (t : Nat) (o : Outer) (g v ng ns : Nat) (I : EInv σ)
    (K : ELabelOK σ (.call t o g v ng ns)) : EInv (step σ (.call t o g v ng ns)) := by
  simp only [step]
  split
  · rename_i hok
    simp only [callOk, Bool.and_eq_true, decide_eq_true_eq, Bool.not_eq_true', Bool.and_eq_false_iff] at hok
    obtain ⟨⟨⟨⟨⟨hidle, _⟩, _⟩, _⟩, _⟩, _⟩ := hok
    obtain ⟨hpcP, _⟩ := callPrep_pc σ t o g v ng ns
    have hoth : ∀ u, u ≠ t → (callEntry (callPrep σ t o g v ng ns) t o g ng ns).th u = σ.th u := by
      intro u hu; rw [callEntry_th_ne _ _ _ _ _ _ _ hu, callPrep_th_ne _ _ _ _ _ _ _ _ hu]
    apply einv_of_frame t I hoth
    · intro u hu hi
      obtain ⟨k1, k2⟩ := K u hu hi
      unfold tokOf
      rw [hoth u hu]
      exact callStep_tok σ t o g v ng ns _ k2 k1
    · rw [edata_of (callEntry_mgr _ t o g ng ns) (callEntry_ereg _ t o g ng ns), callPrep_edata]
    · rw [callEntry_mgr, callPrep_mgr]
    · exact callEntry_eplain _ t o g ng ns (by rw [hpcP, hidle])
  · exact I

theorem einv_retn {σ : St} (t : Nat) (I : EInv σ) (K : ELabelOK σ (.retn t)) : EInv (step σ (.retn t)) := by
  simp only [step]
  split
  · rename_i r hpc
    repeat' split
    all_goals
      apply einv_of_frame t I
      · intro u hu; simp [St.goto, St.flush, St.setTh, St.setHd, upd, hu]
      · intro u hu hi
        obtain ⟨k1, k2⟩ := K u hu hi
        first
          | (simp [tokOf, St.goto, St.flush, St.setTh, St.setHd, upd, hu, k1]; done)
          | (have k3 := k2 (by simp [Outer.creates, *]); simp [tokOf, St.goto, St.flush, St.setTh, St.setHd, upd, hu, k1, k3]; done)
      · simp only [edata_setHd, edata_flush, edata_goto]
      · simp only [mgr_setHd, mgr_flush, mgr_goto]
      · simp [St.goto, St.flush, St.setTh, St.setHd, upd, PC.ePhase]
  · exact I

theorem einv_arc {σ : St} (t : Nat) (I : EInv σ) : EInv (step σ (.arc t)) := by
  simp only [step]
  split
  · rename_i r hpc
    apply einv_of_frame t I (fun u hu => arcStep_th σ t r u hu)
    · intro u hu _
      unfold tokOf
      rw [arcStep_th σ t r u hu]
      unfold arcStep; simp only []; repeat' split
      all_goals rfl
    · exact edata_of (arcStep_mgr σ t r) (ereg_of_ring (arcStep_ring σ t r))
    · rw [arcStep_mgr]
    · exact arcStep_eplain σ t r
  · exact I

theorem einv_wake {σ : St} (t : Nat) (I : EInv σ) : EInv (step σ (.wake t)) := by
  simp only [step]
  split
  · rename_i j seq hpc
    split
    · exact I
    · apply einv_of_frame t I
      · intro u hu; simp [St.goto, St.setTh, upd, hu]
      · intro u hu _; simp [tokOf, St.goto, St.setTh, upd, hu]
      · rfl
      · rfl
      · simp [St.goto, St.setTh, upd, PC.ePhase]
  · exact I

theorem einv_init (N : Nat) (bcast : Bool) (wait : WaitK) (fut : Bool) : EInv (init N bcast wait fut) := by
  refine ⟨?_, ?_, ?_⟩
  · intro k hk; simp [init, St.mgr, Mgr.pipe] at hk
  · intro s hs; simp [init, St.mgr, Mgr.pipe] at hs
  · intro t; simp [init, ELoc]

/-- everything a step needs: mutexes (`LockStepOK`), ownership (`ELabelOK`). No hypothesis about the ring:
the theorems cover the regions of the open findings F1/F12, the removal of the last stream and teardown. -/
def SafeStepOK (σ : St) (l : Label) : Prop := LockStepOK σ l ∧ ELabelOK σ l

inductive SafeRun : St → List Label → St → Prop
  | nil (σ : St) : SafeRun σ [] σ
  | cons {σ : St} {l : Label} {ls : List Label} {σ' : St} :
      SafeStepOK σ l → SafeRun (step σ l) ls σ' → SafeRun σ (l :: ls) σ'

/-- the three invariants together -/
structure AllInv (σ : St) : Prop where
  r : RegInv σ
  m : MInvS σ
  e : EInv σ

theorem einv_step {σ : St} (l : Label) (A : AllInv σ) (h : SafeStepOK σ l) : AllInv (step σ l) := by
  obtain ⟨h2, h3⟩ := h
  refine ⟨reginv_step l A.r, mgi_step l A.m h2, ?_⟩
  cases l
  case call t o g v ng ns => exact einv_call t o g v ng ns A.e h3
  case run x inp => exact einv_stepRun x inp A.e A.m A.r h3 h2
  case retn t => exact einv_retn t A.e h3
  case arc t => exact einv_arc t A.e
  case wake t => exact einv_wake t A.e

theorem allInv_init (N : Nat) (bcast : Bool) (wait : WaitK) (fut : Bool) : AllInv (init N bcast wait fut) :=
  ⟨reginv_init N bcast wait fut, mgi_init N bcast wait fut, einv_init N bcast wait fut⟩

theorem allInv_safeRun {σ σ' : St} {ls : List Label} (r : SafeRun σ ls σ') (A : AllInv σ) : AllInv σ' := by
  induction r with
  | nil => exact A
  | cons h _ ih => exact ih (einv_step _ A h)

end MQ
