import MQ.Inv.RingMain
import MQ.Inv.ModeDefs
/-!
# PinInv — a clone in progress is never overlapped by a write of its slot (broadcast queues)

A consumer of a *shared* stream pins the slot (`refcnt += 1`), re-checks that the stream is still at the position it
examined, clones, unpins and only then tries to commit. A producer that wants to reuse the slot one lap later
loads the pin count after its window check and gives up (`Full`) unless it is zero. The only consumer of a stream
(`is_single()` read as true *before* the position was loaded — F16) reads without a pin: its stream cannot
move under it.

`PinInv`: the pin count of every slot is exactly the number of consumers inside a pinned section on it (`cnt`); a
producer past the pin check (`wPos`) and a consumer inside a validated pinned read (`rdPos`) are never on the same
slot (`excl`); the position of an unpinned reader is its stream's position (`sgp`); the slot content a reader
has read is still there when it clones (`stable`). Hence the ghost flag `torn` is never set.
-/
set_option linter.unusedSimpArgs false
set_option linter.unusedVariables false
namespace MQ

/-- position whose slot the consumer holds pinned -/
def PC.pinPos : PC → Option Nat
  | .r5 p _ | .r6 p | .rd p false | .rc p false _ | .r8 p _ => some p
  | _ => none

/-- the consumer reads / clones the slot of a validated position under its pin -/
def PC.rdPos : PC → Option Nat
  | .rd p false | .rc p false _ => some p
  | _ => none

/-- the producer is past the pin check of position `h` -/
def PC.wPos : PC → Option Nat
  | .hd _ h | .tg h | .wr h _ => some h
  | _ => none

def PC.isHd : PC → Bool
  | .hd _ _ => true
  | _ => false

/-- unpinned receive by the only consumer of the stream -/
def PC.sgPos : PC → Option Nat
  | .r1 p true | .r2 p true | .r3 p true | .r3b p true | .rd p true | .rc p true _ | .r9 p true _ | .fg p true => some p
  | _ => none

def pinned (σ : St) (t j : Nat) : Prop := ∃ p, (σ.th t).pc.pinPos = some p ∧ p % σ.N = j

structure PinInv (σ : St) : Prop where
  cnt : ∀ j, ∃ l : List Nat, l.Nodup ∧ (∀ t, t ∈ l ↔ pinned σ t j) ∧ σ.ref j = l.length
  r5f : ∀ t p, (σ.th t).pc ≠ .r5 p true
  excl : ∀ w t h p, (σ.th w).pc.wPos = some h → ((σ.th w).pc.isHd = true → σ.head = h) →
    (σ.th t).pc.rdPos = some p → h % σ.N = p % σ.N → False
  sgp : ∀ t p, (σ.th t).pc.sgPos = some p → σ.pos (σ.th t).s = p
  stable : ∀ t p sg c, (σ.th t).pc = .rc p sg c → σ.cont (p % σ.N) = c
  torn : σ.torn = false

/-- all classes of a program point -/
def PC.pcls (pc : PC) : Option Nat × Option Nat × Option Nat × Option Nat × Bool :=
  (pc.pinPos, pc.rdPos, pc.wPos, pc.sgPos, match pc with | .rc _ _ _ => true | .r5 _ true => true | _ => false)

def PC.punk (pc : PC) : Bool := pc.pcls == (none, none, none, none, false)

theorem neutral_punk {pc : PC} (h : pc.neutral = true) : pc.punk = true := by
  cases pc <;> simp [PC.neutral] at h <;> rfl

end MQ
