import MQ.Inv.RegRun
import MQ.Inv.RingMain
/-! # RegInv holds in every reachable state of `Core` — no hypothesis at all -/
set_option linter.unusedSimpArgs false
set_option linter.unusedVariables false
namespace MQ

/-- a label that leaves the registry alone and moves `t` to a program point without registry facts -/
theorem reginv_of_frame {σ σ' : St} (t : Nat) (I : RegInv σ) (hr : σ'.ereg = σ.ereg)
    (hth : ∀ u, u ≠ t → σ'.th u = σ.th u) (ht : (σ'.th t).pc.rPhase = false) : RegInv σ' := by
  obtain ⟨h1, h2, h3, h4, h5⟩ := reg_fields hr
  have hna : (σ'.th t).pc.addPC = false := by
    cases h : (σ'.th t).pc.addPC
    · rfl
    · rw [rphase_of_add h] at ht; cases ht
  refine ⟨by rw [h1, h3]; exact I.curlt, by rw [h1, h2, h4]; exact I.regest, by rw [h4, h5]; exact I.estsub, ?_, ?_⟩
  · intro u
    by_cases e : u = t
    · subst e; exact RLoc_of_not_phase ht
    · rw [hth u e]; exact RLoc_congr hr (I.loc u)
  · intro t1 t2 a1 a2 e
    by_cases e1 : t1 = t
    · subst e1; rw [hna] at a1; cases a1
    · by_cases e2 : t2 = t
      · subst e2; rw [hna] at a2; cases a2
      · rw [hth t1 e1] at a1 e; rw [hth t2 e2] at a2 e; exact I.nsinj t1 t2 a1 a2 e

theorem rphase_of_neutral {pc : PC} (h : pc.neutral = true) : pc.rPhase = false := by
  cases pc <;> simp [PC.neutral, PC.rPhase] at h ⊢

theorem reginv_call {σ : St} (t : Nat) (o : Outer) (g v ng ns : Nat) (I : RegInv σ) :
    RegInv (step σ (.call t o g v ng ns)) := by
  simp only [step]
  split
  · rename_i hok
    simp only [callOk, Bool.and_eq_true, decide_eq_true_eq, Bool.not_eq_true', Bool.and_eq_false_iff] at hok
    obtain ⟨⟨⟨⟨⟨hidle, _⟩, _⟩, _⟩, _⟩, hS⟩ := hok
    obtain ⟨hpcP, hnsP⟩ := callPrep_pc σ t o g v ng ns
    obtain ⟨hpcE, hnsE, _⟩ := callEntry_pc (callPrep σ t o g v ng ns) t o g ng ns (by rw [hpcP, hidle])
    have hoth : ∀ u, u ≠ t → (callEntry (callPrep σ t o g v ng ns) t o g ng ns).th u = σ.th u := by
      intro u hu; rw [callEntry_th_ne _ _ _ _ _ _ _ hu, callPrep_th_ne _ _ _ _ _ _ _ _ hu]
    have hring := callEntry_ring (callPrep σ t o g v ng ns) t o g ng ns
    rw [callPrep_ring] at hring
    cases hneed : needStream o
    · rw [hneed] at hring; simp only [Bool.false_eq_true, ↓reduceIte] at hring
      have hneu : ((callEntry (callPrep σ t o g v ng ns) t o g ng ns).th t).pc.neutral = true := by
        rcases hpcE with h | ⟨_, h⟩
        · exact h
        · rw [hneed] at h; cases h
      exact reginv_of_frame t I (ereg_of_ring hring) hoth (rphase_of_neutral hneu)
    · -- a stream id is reserved
      rw [hneed] at hring hS; simp only [↓reduceIte] at hring
      have hfresh : σ.sused ns = false := by
        rcases hS with h | h
        · cases h
        · exact h
      have hest : σ.est ns = false := by
        cases e : σ.est ns
        · rfl
        · have := I.estsub ns e; rw [hfresh] at this; cases this
      generalize callEntry (callPrep σ t o g v ng ns) t o g ng ns = σ' at *
      have h1 : σ'.cur = σ.cur := by have := congrArg Ring.cur hring; simpa [St.ring] using this
      have h2 : σ'.groups = σ.groups := by have := congrArg Ring.groups hring; simpa [St.ring] using this
      have h3 : σ'.nextGrp = σ.nextGrp := by have := congrArg Ring.nextGrp hring; simpa [St.ring] using this
      have h4 : σ'.est = σ.est := by have := congrArg Ring.est hring; simpa [St.ring] using this
      have h5 : σ'.sused = upd σ.sused ns true := by have := congrArg Ring.sused hring; simpa [St.ring] using this
      have hmono : ∀ s, σ.sused s = true → σ'.sused s = true := by
        intro s hs; rw [h5]; simp only [upd]; split
        · rfl
        · exact hs
      refine ⟨by rw [h1, h3]; exact I.curlt, by rw [h1, h2, h4]; exact I.regest,
              fun s hs => hmono s (I.estsub s (by rw [h4] at hs; exact hs)), ?_, ?_⟩
      · intro u
        by_cases e : u = t
        · subst e
          rcases hpcE with h | ⟨h, _⟩
          · exact RLoc_of_not_phase (rphase_of_neutral h)
          · simp only [RLoc, h, hnsE, hnsP, h4, h5, upd_same]
            exact ⟨trivial, hest⟩
        · rw [hoth u e]
          have L := I.loc u
          generalize σ.th u = y at L
          obtain ⟨pc, g', v', outer, ff, pn, ng', ns', s', single, aux⟩ := y
          cases pc <;> simp only [RLoc, h1, h2, h3, h4] at L ⊢ <;> (try exact L)
          case a1 => exact ⟨hmono _ L.1, L.2⟩
          case a2 c => exact ⟨hmono _ L.1, L.2⟩
          case a3 c raw ng'' => exact ⟨hmono _ L.1, L.2⟩
      · intro t1 t2 a1 a2 e
        have other_ns : ∀ u, u ≠ t → (σ.th u).pc.addPC = true → (σ.th u).ns ≠ ns := by
          intro u hu ha hns
          have L := I.loc u
          have : σ.sused (σ.th u).ns = true := by
            cases hq : (σ.th u).pc <;> rw [hq] at ha <;> simp only [PC.addPC] at ha <;> (try (cases ha; done))
            all_goals (simp only [RLoc, hq] at L; exact L.1)
          rw [hns, hfresh] at this; cases this
        by_cases e1 : t1 = t <;> by_cases e2 : t2 = t
        · rw [e1, e2]
        · subst e1; rw [hoth t2 e2] at a2 e
          rw [hnsE, hnsP] at e
          exact absurd e.symm (other_ns t2 e2 a2)
        · subst e2; rw [hoth t1 e1] at a1 e
          rw [hnsE, hnsP] at e
          exact absurd e (other_ns t1 e1 a1)
        · rw [hoth t1 e1] at a1 e; rw [hoth t2 e2] at a2 e; exact I.nsinj t1 t2 a1 a2 e
  · exact I

theorem reginv_retn {σ : St} (t : Nat) (I : RegInv σ) : RegInv (step σ (.retn t)) := by
  simp only [step]
  split
  · rename_i r hpc
    repeat' split
    all_goals
      apply reginv_of_frame t I
      · simp only [ereg_setHd, ereg_flush, ereg_goto]
      · intro u hu; simp [St.goto, St.flush, St.setTh, St.setHd, upd, hu]
      · simp [St.goto, St.flush, St.setTh, St.setHd, upd, PC.rPhase]
  · exact I

theorem reginv_arc {σ : St} (t : Nat) (I : RegInv σ) : RegInv (step σ (.arc t)) := by
  simp only [step]
  split
  · rename_i r hpc
    exact reginv_of_frame t I (ereg_of_ring (arcStep_ring σ t r)) (fun u hu => arcStep_th σ t r u hu)
      (rphase_of_neutral (arcStep_neutral σ t r))
  · exact I

theorem reginv_wake {σ : St} (t : Nat) (I : RegInv σ) : RegInv (step σ (.wake t)) := by
  simp only [step]
  split
  · rename_i j seq hpc
    split
    · exact I
    · apply reginv_of_frame t I
      · rfl
      · intro u hu; simp [St.goto, St.setTh, upd, hu]
      · simp [St.goto, St.setTh, upd, PC.rPhase]
  · exact I

theorem reginv_step {σ : St} (l : Label) (I : RegInv σ) : RegInv (step σ l) := by
  cases l
  case call t o g v ng ns => exact reginv_call t o g v ng ns I
  case run x inp => exact reginv_stepRun x inp I
  case retn t => exact reginv_retn t I
  case arc t => exact reginv_arc t I
  case wake t => exact reginv_wake t I

theorem reginv_init (N : Nat) (bcast : Bool) (wait : WaitK) (fut : Bool) : RegInv (init N bcast wait fut) := by
  refine ⟨?_, ?_, ?_, ?_, ?_⟩
  · simp [init]
  · intro s hs; simp [init, upd] at hs ⊢; exact hs
  · intro s hs; simp [init] at hs ⊢; exact hs
  · intro t; simp [init, RLoc]
  · intro t1 t2 h1; simp [init, PC.addPC] at h1

/-- any execution whatsoever -/
def runFrom (σ : St) : List Label → St
  | [] => σ
  | l :: ls => runFrom (step σ l) ls

theorem reginv_run (σ : St) (ls : List Label) (I : RegInv σ) : RegInv (runFrom σ ls) := by
  induction ls generalizing σ with
  | nil => exact I
  | cons l ls ih => exact ih _ (reginv_step l I)

end MQ
