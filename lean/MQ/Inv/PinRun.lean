import MQ.Inv.SFrame
import MQ.Inv.ModeDefs
/-! # PinInv — preservation by `run` steps -/
set_option linter.unusedSimpArgs false
set_option linter.unusedVariables false
set_option maxHeartbeats 4000000
namespace MQ

theorem ring_fields {σ σ' : St} (h : σ'.ring = σ.ring) :
    σ'.N = σ.N ∧ σ'.cont = σ.cont ∧ σ'.pos = σ.pos ∧ σ'.head = σ.head :=
  ⟨congrArg Ring.N h, congrArg Ring.cont h, congrArg Ring.pos h, congrArg Ring.head h⟩

theorem paux_fields {σ σ' : St} (h : σ'.paux = σ.paux) : σ'.ref = σ.ref ∧ σ'.torn = σ.torn ∧ σ'.bcast = σ.bcast :=
  ⟨congrArg PAux.ref h, congrArg PAux.torn h, congrArg PAux.bcast h⟩

theorem punk_fields {pc : PC} (h : pc.punk = true) :
    pc.pinPos = none ∧ pc.rdPos = none ∧ pc.wPos = none ∧ pc.sgPos = none ∧ (∀ p sg c, pc ≠ .rc p sg c) ∧ (∀ p, pc ≠ .r5 p true) := by
  cases pc <;> simp [PC.punk, PC.pcls, PC.pinPos, PC.rdPos, PC.wPos, PC.sgPos] at h ⊢ <;> simp_all

theorem srcNeutral_punk {pc : PC} (h : pc.srcNeutral = true) : pc.punk = true := by
  cases pc <;> simp [PC.srcNeutral] at h <;> rfl

/-- steps from program points that have nothing to do with pins, reads or claims -/
theorem pin_run_neutral {σ : St} (x inp : Nat) (P : PinInv σ) (h : (σ.th x).pc.srcNeutral = true) :
    PinInv (stepRun σ x inp).2 := by
  obtain ⟨r1, r2, r3, r4⟩ := ring_fields (stepRun_ring_same σ x inp (srcNeutral_not_changing h))
  have hp : (σ.th x).pc.pauxSrc = false := by
    cases hpc : (σ.th x).pc <;> rw [hpc] at h <;> simp [PC.srcNeutral] at h <;> rfl
  obtain ⟨a1, a2, _⟩ := paux_fields (stepRun_paux_same σ x inp hp)
  obtain ⟨n1, n2, n3, n4, n5, n6⟩ := punk_fields (neutral_punk (stepRun_neutral σ x inp h))
  obtain ⟨o1, _⟩ := punk_fields (srcNeutral_punk h)
  apply pin_mono x P (fun u hu => stepRun_th σ x inp u hu) r1 a1 r2 r3 r4 a2 (stepRun_sfld σ x inp)
  · rw [n1, o1]
  · intro p hp; rw [n2] at hp; cases hp
  · intro h' hp; rw [n3] at hp; cases hp
  · intro p hp; rw [n4] at hp; cases hp
  · intro p sg c hp; exact absurd hp (n5 p sg c)
  · exact n6
  · exact Or.inl n2

macro "pin_unf" hpc:ident : tactic =>
  `(tactic| simp only [stepRun, $hpc:ident, mgrDone, sendDone, recvDone, startNotify, afterNotify, checkDone, startWait,
      waitDone, recvDropTail, sendDropTail, teardownStart, freeTail, freeEnd, stepRun.stepLa2, stepRun.startNotify2])

macro "pin_fld" hpc:ident : tactic =>
  `(tactic| (pin_unf $hpc:ident; (repeat' split) <;> rfl))

macro "pin_cls" hpc:ident : tactic =>
  `(tactic| (pin_unf $hpc:ident; (repeat' split) <;>
      simp_all [PC.pinPos, PC.rdPos, PC.wPos, PC.sgPos, PC.isHd, St.goto, St.gotoF, St.flush, St.setTh, St.setHd, upd]))

/-- steps that neither pin, unpin, claim, write, commit nor start a validated read -/
macro "pin_mono_case" x:ident inp:ident P:ident hpc:ident : tactic =>
  `(tactic| (
    apply pin_mono $x:ident $P:ident (fun u hu => stepRun_th _ $x:ident $inp:ident u hu) (by pin_fld $hpc:ident) (by pin_fld $hpc:ident)
      (by pin_fld $hpc:ident) (by pin_fld $hpc:ident) (by pin_fld $hpc:ident) (by pin_fld $hpc:ident) (stepRun_sfld _ $x:ident $inp:ident)
    all_goals ((try rw [$hpc:ident]); pin_cls $hpc:ident)))


macro "pin_cls2" hpc:ident : tactic =>
  `(tactic| (pin_unf $hpc:ident; (repeat' split) <;>
      simp [PC.pinPos, PC.rdPos, PC.wPos, PC.sgPos, PC.isHd, St.goto, St.gotoF, St.flush, St.setTh, St.setHd, upd, ‹St.bcast _ = true›]))

macro "pin_mono_case2" x:ident inp:ident P:ident hpc:ident : tactic =>
  `(tactic| (
    apply pin_mono $x:ident $P:ident (fun u hu => stepRun_th _ $x:ident $inp:ident u hu) (by pin_fld $hpc:ident) (by pin_fld $hpc:ident)
      (by pin_fld $hpc:ident) (by pin_fld $hpc:ident) (by pin_fld $hpc:ident) (by pin_fld $hpc:ident) (stepRun_sfld _ $x:ident $inp:ident)
    all_goals ((try rw [$hpc:ident]); pin_cls2 $hpc:ident)))

theorem pin_run_g3 {σ : St} (x inp : Nat) (hb : σ.bcast = true) (P : PinInv σ) (m : Bool) (h' tl p : Nat) (md : Option Nat)
    (hpc : (σ.th x).pc = .g3 m h' tl p md) : PinInv (stepRun σ x inp).2 := by
  cases m <;> cases md <;> pin_mono_case2 x inp P hpc

theorem pin_run_mono1 {σ : St} (x inp : Nat) (hb : σ.bcast = true) (P : PinInv σ)
    (h : match (σ.th x).pc with
      | .sh _ | .st _ _ | .g1 _ _ _ | .g2 _ _ _ _ _ _ | .g3 _ _ _ _ _ | .tcs _ _ | .tcc _ _ _ | .tcl _ | .ts _ _ | .tg _ => True
      | _ => False) : PinInv (stepRun σ x inp).2 := by
  cases hpc : (σ.th x).pc <;> rw [hpc] at h <;> simp only [] at h
  case sh m => cases m <;> pin_mono_case x inp P hpc
  case st m h' => cases m <;> pin_mono_case x inp P hpc
  case g1 m h' tl => cases m <;> pin_mono_case x inp P hpc
  case g2 m h' tl p i md => cases m <;> pin_mono_case x inp P hpc
  case g3 m h' tl p md => exact pin_run_g3 x inp hb P m h' tl p md hpc
  case tcs h' c => pin_mono_case x inp P hpc
  case tcc h' tl c => pin_mono_case x inp P hpc
  case tcl h' => pin_mono_case x inp P hpc
  case ts h' o => pin_mono_case x inp P hpc
  case tg h' => pin_mono_case x inp P hpc

theorem pin_run_mono2 {σ : St} (x inp : Nat) (hb : σ.bcast = true) (P : PinInv σ)
    (h : match (σ.th x).pc with
      | .la1 | .la2 | .is1 | .v1 _ | .v2 _ | .v3 _ | .vd _ _ | .rr1 | .rr2 _ _ | .a1 | .a2 _
      | .r1 _ _ | .r2 _ _ | .r3 _ _ | .r3b _ _ | .r7 _ | .fg _ _ | .rd _ _ => True
      | _ => False) : PinInv (stepRun σ x inp).2 := by
  cases hpc : (σ.th x).pc <;> rw [hpc] at h <;> simp only [] at h
  case la1 => cases ha : ((σ.th x).aux == 1) <;> pin_mono_case x inp P hpc
  case la2 => cases ha : ((σ.th x).aux == 1) <;> pin_mono_case x inp P hpc
  case is1 => pin_mono_case x inp P hpc
  case v1 p => pin_mono_case x inp P hpc
  case v2 p => pin_mono_case x inp P hpc
  case v3 p => pin_mono_case x inp P hpc
  case vd p c => pin_mono_case x inp P hpc
  case rr1 => pin_mono_case x inp P hpc
  case rr2 c ng => pin_mono_case x inp P hpc
  case a1 => pin_mono_case x inp P hpc
  case a2 c => pin_mono_case x inp P hpc
  case r1 p sg => cases sg <;> pin_mono_case x inp P hpc
  case r2 p sg => cases sg <;> pin_mono_case x inp P hpc
  case r3 p sg => cases sg <;> pin_mono_case x inp P hpc
  case r3b p sg => cases sg <;> pin_mono_case x inp P hpc
  case r7 sg => cases sg <;> pin_mono_case x inp P hpc
  case fg p sg => cases sg <;> pin_mono_case x inp P hpc
  case rd p sg => cases sg <;> pin_mono_case x inp P hpc

end MQ
