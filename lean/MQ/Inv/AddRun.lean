import MQ.Inv.AddFrame
/-!
# `add_stream` runs only its own program (C10): an invariant of every label sequence, without any exclusion
-/
namespace MQ

/-- a thread whose current (or last) call is `add_stream` is idle or inside `add_stream`'s own program -/
def AddI (σ : St) : Prop := ∀ t, (σ.th t).outer = .addStream → (σ.th t).pc = .idle ∨ (σ.th t).pc.inAdd = true

theorem addI_init (N : Nat) (bcast : Bool) (wait : WaitK) (fut : Bool) : AddI (init N bcast wait fut) := by
  intro t _; left; rfl

theorem not_inAdd_arc (r : Res) : (PC.arc r).inAdd = false := by simp [PC.inAdd, PC.addPC, PC.afterNew]
theorem not_inAdd_wblk (j s : Nat) : (PC.wblk j s).inAdd = false := by simp [PC.inAdd, PC.addPC, PC.afterNew]

theorem call_th_other (σ : St) (u t : Nat) (o : Outer) (g v ng ns : Nat) (h : t ≠ u) :
    (callEntry (callPrep σ u o g v ng ns) u o g ng ns).th t = σ.th t := by
  cases o <;> simp only [callEntry, callPrep] <;> (repeat' split) <;> simp [St.goto, St.setTh, St.setHd, upd, h]

theorem call_th_self (σ : St) (u : Nat) (o : Outer) (g v ng ns : Nat) :
    ((callEntry (callPrep σ u o g v ng ns) u o g ng ns).th u).outer = .addStream →
    ((callEntry (callPrep σ u o g v ng ns) u o g ng ns).th u).pc = .a1 := by
  cases o <;> simp only [callEntry, callPrep] <;> (repeat' split) <;> simp [St.goto, St.setTh, St.setHd, upd]

theorem retn_th_other (σ : St) (u t : Nat) (h : t ≠ u) : (step σ (.retn u)).th t = σ.th t := by
  simp only [step]; (repeat' split) <;> simp [St.goto, St.flush, St.setTh, St.setHd, upd, h]

theorem retn_th_self (σ : St) (u : Nat) : (step σ (.retn u)).th u = σ.th u ∨ ((step σ (.retn u)).th u).pc = .idle := by
  simp only [step]; (repeat' split) <;> simp [St.goto, St.flush, St.setTh, St.setHd, upd]

theorem arc_th_other (σ : St) (u t : Nat) (h : t ≠ u) : (step σ (.arc u)).th t = σ.th t := by
  simp only [step, arcStep]; (repeat' split) <;> simp [St.goto, St.setTh, upd, h]

theorem wake_th_other (σ : St) (u t : Nat) (h : t ≠ u) : (step σ (.wake u)).th t = σ.th t := by
  simp only [step]; (repeat' split) <;> simp [St.goto, St.setTh, upd, h]

theorem addI_step (σ : St) (l : Label) (A : AddI σ) : AddI (step σ l) := by
  intro t ho
  cases l with
  | run u inp =>
      simp only [step] at ho ⊢
      by_cases hu : t = u
      · subst hu
        have ho0 := outer_add_of_step σ t inp ho
        rcases A t ho0 with hi | ha
        · rw [idle_stepRun σ t inp hi]; exact Or.inl hi
        · exact Or.inr (C10_add_stream_stays_in_its_program σ t inp ho0 ha).1
      · rw [stepRun_th σ u inp t hu] at ho ⊢; exact A t ho
  | call u o g v ng ns =>
      simp only [step] at ho ⊢
      split at ho
      next hc =>
        simp only [hc, if_true]
        by_cases hu : t = u
        · subst hu
          right
          rw [call_th_self σ t o g v ng ns ho]; rfl
        · rw [call_th_other σ u t o g v ng ns hu] at ho ⊢; exact A t ho
      next hc => simp only [hc]; exact A t ho
  | retn u =>
      by_cases hu : t = u
      · subst hu
        rcases retn_th_self σ t with e | e
        · rw [e] at ho ⊢; exact A t ho
        · exact Or.inl e
      · rw [retn_th_other σ u t hu] at ho ⊢; exact A t ho
  | arc u =>
      by_cases hu : t = u
      · subst hu
        simp only [step] at ho ⊢
        split at ho
        next r hr =>
          exfalso
          have ho0 : (σ.th t).outer = .addStream := by
            simp only [arcStep] at ho; (repeat' split at ho) <;> simpa [St.goto, St.setTh, upd] using ho
          rcases A t ho0 with hi | ha
          · rw [hr] at hi; cases hi
          · rw [hr, not_inAdd_arc] at ha; cases ha
        next h => exact A t ho
      · rw [arc_th_other σ u t hu] at ho ⊢; exact A t ho
  | wake u =>
      by_cases hu : t = u
      · subst hu
        simp only [step] at ho ⊢
        split at ho
        next j q hr =>
          exfalso
          have ho0 : (σ.th t).outer = .addStream := by
            (repeat' split at ho) <;> simpa [St.goto, St.setTh, upd] using ho
          rcases A t ho0 with hi | ha
          · rw [hr] at hi; cases hi
          · rw [hr, not_inAdd_wblk] at ha; cases ha
        next h => exact A t ho
      · rw [wake_th_other σ u t hu] at ho ⊢; exact A t ho

/-- the invariant holds in every state reachable from the initial one, by any sequence of labels -/
theorem addI_run (N : Nat) (bcast : Bool) (wait : WaitK) (fut : Bool) (ls : List Label) :
    AddI (ls.foldl step (init N bcast wait fut)) := by
  suffices h : ∀ σ, AddI σ → AddI (ls.foldl step σ) from h _ (addI_init N bcast wait fut)
  induction ls with
  | nil => intro σ A; exact A
  | cons l ls ih => intro σ A; exact ih _ (addI_step σ l A)

end MQ
