def hello := "world"
