import MQ.Inv.RingDefs
/-!
# Executable versions of the hypotheses of the `_partial` theorems

The acceptor evaluates them on the model state before every step of every real trace, for the threads
`0 … T-1` (all others are idle). `MQ/Inv/HypSound.lean` proves that they imply the `Prop` hypotheses.
-/
namespace MQ

def tokOfB (σ : St) (t : Nat) : Nat := (σ.hs (σ.th t).g).tok

def PC.holdGB : PC → Option Nat
  | .g2 _ _ _ p _ _ => some p
  | .a2 c => some c
  | _ => none

/-- `ModeOK`, for threads below `T` (thread records are looked up once) -/
def modeOKb (σ : St) (T : Nat) : Bool :=
  let ths := (List.range T).map fun t => (t, σ.th t)
  let cur := σ.groups σ.cur
  (ths.all fun (t, x) => ths.all fun (u, y) =>
    (t == u || !(x.pc.sendActive && y.pc.singleSend)) &&
    (t == u || !(x.pc.recvActive && y.singleRecv && x.s == y.s))) &&
  (ths.all fun (_, x) =>
    (!x.pc.recvActive || cur.contains x.s) &&
    (!x.pc.addPC || cur.contains x.s))

/-- the two known triggers stay away (F1, F12) -/
def triggersOKb (σ : St) (t : Nat) (σ' : St) : Bool :=
  (match (σ.th t).pc with
   | .a3 c raw _ => !(σ.cur == c) || σ.pos (σ.th t).s == raw
   | _ => true) &&
  !(σ'.groups σ'.cur).isEmpty

/-- `LockOK` -/
def lockOKb (σ : St) (t : Nat) : Bool :=
  match (σ.th t).pc with
  | .gt1 _ | .rt1 _ => σ.mgrOwner.isNone
  | .f1 _ _ | .tdm => σ.wtfOwner.isNone
  | _ => true

/-- `WLockOK`: the condvar's mutex and the consumers' list lock are mutual exclusion -/
def wLockOKb (σ : St) (x T : Nat) : Bool :=
  match (σ.th x).pc with
  | .nb1 _ | .wl _ _ => σ.wlockOwner.isNone
  | .nf false _ => (List.range T).all fun u => match (σ.th u).pc with | .c2 _ _ .parked _ => false | _ => true
  | _ => true

/-- `EStepOK`, for threads below `T` -/
def eStepOKb (σ : St) (x T : Nat) : Bool :=
  let ths := (List.range T).map fun t => (t, σ.th t)
  let tok := fun (y : Th) => (σ.hs y.g).tok
  let me := σ.th x
  let others := ths.filter fun (u, y) => u != x && y.pc != .idle
  (others.all fun (_, y) => tok y != tok me) &&
  (match me.pc with
   | .gt2 _ => others.all fun (_, y) => me.ng != tok y
   | .g1 _ _ _ | .a1 | .a3 _ _ _ => σ.toks.contains (tok me)
   | .rr2 c _ => !(σ.cur == c) || (σ.groups c).contains me.s
   | .tdm => ths.all fun (u, y) => u == x || y.pc.holdGB.isNone
   | _ => true)

/-- calls that write the record of a new handle `ng` -/
def Outer.creates (o : Outer) : Bool :=
  match o with
  | .clone | .addStream | .intoSingleFut | .intoMultiFut => true
  | _ => false

/-- `ELabelOK` for a call -/
def eCallOKb (σ : St) (t : Nat) (o : Outer) (g ng T : Nat) : Bool :=
  (List.range T).all fun u => u == t || (σ.th u).pc == .idle || ((σ.th u).g != g && (!o.creates || (σ.th u).g != ng))

/-- `ELabelOK` for a return -/
def eRetOKb (σ : St) (t T : Nat) : Bool :=
  (List.range T).all fun u => u == t || (σ.th u).pc == .idle ||
    ((σ.th u).g != (σ.th t).g && (!(σ.th t).outer.creates || (σ.th u).g != (σ.th t).ng))

/-- names of the hypotheses that fail before a `run` step of `t` -/
def hypRun (σ : St) (t T : Nat) : List String :=
  (if modeOKb σ T then [] else ["ModeOK"]) ++
  (if lockOKb σ t then [] else ["LockOK"]) ++
  (if wLockOKb σ t T then [] else ["WLockOK"]) ++
  (if eStepOKb σ t T then [] else ["EStepOK"])

end MQ
