import MQ.Model.Spec
/-!
# `mqdrv spec` — line protocol of the sequential differential

```
=== <name>
cfg flavour=bcast|mpmc kind=plain|fut cap=<n> ...
<op text> | <result string>          (one per call, `Op::text()` / `Ctx::exec` formats)
try_iter <h> <n> | iter v1 v2         (real non-blocking iterator; = repeated try_recv / view)
iter_all <h> | iter v1 v2 end         (real consuming iterator, then the handle is gone)
ledger | live=[v1 v2] births=3 clones=1 bad=0
```
Answer per sequence: `OK <name> calls=<n>` or
`MISMATCH <name> line <k>: op=<..> real=<..> spec=<..> flavour=<..> kind=<..>`,
and a last line `SUMMARY sequences=<n> ok=<n> mismatch=<n> calls=<n>`.
-/
namespace MQ.Spec

inductive Line
  | call (c : Call)
  | tryIter (h n : Nat)
  | iterAll (h : Nat)
  | ledger

def parseOp (s : String) : Option Line :=
  let t := (s.splitOn " ").filter (· ≠ "")
  let num (i : Nat) : Option Nat := (t[i]?).bind String.toNat?
  match t[0]? with
  | some "ledger" => some .ledger
  | some "try_iter" => do some (.tryIter (← num 1) (← num 2))
  | some "iter_all" => do some (.iterAll (← num 1))
  | some name => do
    let h ← num 1
    match name with
    | "try_send" => some (.call (.trySend h))
    | "try_recv" => some (.call (.tryRecv h))
    | "recv" => some (.call (.recv h))
    | "try_recv_view" => some (.call (.tryRecvView h))
    | "recv_view" => some (.call (.recvView h))
    | "clone" => some (.call (.clone h))
    | "add_stream" => some (.call (.addStream h))
    | "drop" => some (.call (.drop h))
    | "unsub" => some (.call (.unsub h))
    | "into_single" => some (.call (.intoSingle h))
    | "into_multi" => some (.call (.intoMulti h))
    | "start_send" => some (.call (.startSend h))
    | "poll_complete" => some (.call (.pollComplete h))
    | "poll" => some (.call (.poll h))
    | _ => none
  | none => none

def parseCfg (s : String) : Option State :=
  let kv := (s.splitOn " ").filterMap fun x =>
    match x.splitOn "=" with
    | [k, v] => some (k, v)
    | _ => none
  let get (k : String) : Option String := (kv.find? (·.1 == k)).map (·.2)
  do
    let fl ← get "flavour"
    let kd ← get "kind"
    let cap ← (← get "cap").toNat?
    some (init (fl == "bcast") (kd == "fut") cap)

/-- is slot `h` a live single-consumer receiver? (decides which primitive an iterator uses) -/
def isUni (σ : State) (h : Nat) : Bool :=
  match getSlot σ h with
  | some x => x.role == Role.U
  | Option.none => false

/-- the non-blocking iterators: at most `n` items, stop at the first failure -/
def tryIterSpec (σ : State) (h : Nat) : Nat → List Nat → State × List Nat
  | 0, acc => (σ, acc.reverse)
  | n + 1, acc =>
    let c := if isUni σ h then Call.tryRecvView h else Call.tryRecv h
    match step σ c with
    | (σ', .okV v) => tryIterSpec σ' h n (v :: acc)
    | (σ', _) => (σ', acc.reverse)

/-- the consuming iterators: blocking receive until the end, then drop.  `fuel` bounds the
loop (a stream never holds more than the log). -/
def iterAllSpec (σ : State) (h : Nat) : Nat → List Nat → State × String
  | 0, acc => (σ, "iter " ++ " ".intercalate (acc.reverse.map fun v => s!"v{v}") ++ " nofuel")
  | f + 1, acc =>
    let c := if isUni σ h then Call.recvView h else Call.recv h
    match step σ c with
    | (σ', .okV v) => iterAllSpec σ' h f (v :: acc)
    | (σ', .disc) =>
      let vs := (acc.reverse.map fun v => s!"v{v}") ++ ["end"]
      ((step σ' (.drop h)).1, "iter " ++ " ".intercalate vs)
    | (σ', r) => (σ', s!"iter-stopped {r}")

def iterText (vs : List Nat) : String :=
  " ".intercalate ("iter" :: vs.map fun v => s!"v{v}")

def canon (s : String) : String :=
  " ".intercalate ((s.splitOn " ").filter (· ≠ ""))

/-- one protocol line: new state and the model's result text -/
def stepLine (σ : State) : Line → State × String
  | .call c => let r := step σ c; (r.1, r.2.toString)
  | .tryIter h n => let r := tryIterSpec σ h n []; (r.1, iterText r.2)
  | .iterAll h => iterAllSpec σ h (σ.log.length + 2) []
  | .ledger => (σ, ledgerText σ)

structure SeqOut where
  calls : Nat := 0
  err : Option String := none

/-- check one sequence (lines without the `===` header) -/
def checkSeq (lines : List String) : SeqOut := Id.run do
  let mut st : Option State := none
  let mut k := 0
  let mut calls := 0
  for raw in lines do
    k := k + 1
    let l := canon (raw.replace "\n" "" |>.replace "\r" "")
    if l == "" || l.startsWith "#" then continue
    if l.startsWith "cfg " then
      match parseCfg l with
      | some σ => st := some σ
      | none => return { calls, err := some s!"line {k}: bad cfg '{l}'" }
      continue
    match st with
    | none => return { calls, err := some s!"line {k}: call before cfg" }
    | some σ =>
      match l.splitOn " | " with
      | [op, real] =>
        match parseOp op with
        | none => return { calls, err := some s!"line {k}: op={op} real={real} spec=<unparsed op>" }
        | some ln =>
          let (σ', spec) := stepLine σ ln
          calls := calls + 1
          if canon spec != canon real then
            let fl := if σ.bcast then "bcast" else "mpmc"
            let kd := if σ.fut then "fut" else "plain"
            return { calls, err := some s!"line {k}: op={op} real={canon real} spec={canon spec} flavour={fl} kind={kd}" }
          st := some σ'
      | _ => return { calls, err := some s!"line {k}: malformed '{l}'" }
  return { calls }

partial def readLines (h : IO.FS.Stream) (acc : Array String) : IO (Array String) := do
  let line ← h.getLine
  if line.isEmpty then return acc else readLines h (acc.push line)

/-- `mqdrv spec`: sequences from stdin, one verdict line per sequence, a summary at the end. -/
def runSpec : IO Unit := do
  let lines ← readLines (← IO.getStdin) #[]
  let mut cur : Array String := #[]
  let mut name := ""
  let mut started := false
  let mut nOk := 0
  let mut nBad := 0
  let mut nCalls := 0
  let flush := fun (name : String) (ls : Array String) => do
    let r := checkSeq ls.toList
    match r.err with
    | none => IO.println s!"OK {name} calls={r.calls}"
    | some e => IO.println s!"MISMATCH {name} {e}"
    return r
  for l in lines do
    if l.startsWith "=== " then
      if started then
        let r ← flush name cur
        nCalls := nCalls + r.calls
        if r.err.isSome then nBad := nBad + 1 else nOk := nOk + 1
      name := (l.drop 4).trimAscii.toString
      cur := #[]
      started := true
    else cur := cur.push l
  if started then
    let r ← flush name cur
    nCalls := nCalls + r.calls
    if r.err.isSome then nBad := nBad + 1 else nOk := nOk + 1
  IO.println s!"SUMMARY sequences={nOk + nBad} ok={nOk} mismatch={nBad} calls={nCalls}"

end MQ.Spec
