import MQ.Model.Core
import MQ.Model.Hyp
/-!
# Trace acceptor: replays a harness trace on `Core` and reports the first difference.
Import-free (apart from the model) so that it links as a `lean_exe`.
-/
namespace MQ

structure ASt where
  σ : St
  started : Bool := false
  inCall : Nat → Bool := fun _ => false
  skip : Nat → Bool := fun _ => false        -- thread is inside `create` / a call the model does not follow
  fences : Nat → List Ord := fun _ => []     -- actual fences since the thread's previous event
  notes : Nat → List Nat := fun _ => []
  dead : Nat → Bool := fun _ => false
  events : Nat := 0
  skipped : Nat := 0
  calls : Nat := 0
  pcs : List String := []                     -- distinct pc constructors visited
  rets : List String := []                    -- distinct result kinds
  nth : Nat := 1                              -- number of threads seen so far
  outside : Option Nat := none                -- first line at which the run left the region covered by `StepOK` (F1 / F12 trigger)
  hyp : List String := []                     -- hypotheses of the theorems that failed on this trace (with line numbers)

def parseOrd : String → Ord
  | "rlx" => .rlx | "acq" => .acq | "rel" => .rel | "acqrel" => .acqrel | "sc" => .sc | _ => .na

def afterDot (s : String) : Nat := ((s.splitOn ".").getD 1 "0").toNat!

def parseVal (s : String) : Nat :=
  if s.startsWith "grp." then afterDot s + 1
  else match s.toNat? with | some n => n | none => 0

/-- words the Core model does not cover -/
def filteredWord (_w : String) : Bool := false

def parseKind (k what : String) : Option Kind :=
  match k with
  | "load" => some .load | "store" => some .store | "cas" => some .cas | "casw" => some .casw
  | "fadd" => some .fadd | "fsub" => some .fsub | "for" => some .for_ | "fand" => some .fand
  | "lock" => some .lock | "trylock" => some .trylock | "cvwait" => some .cvwait | "cvnotify" => some .cvnotify
  | "yield" => some .yield_ | "sleep" => some .sleep
  | "tau" => match what with
      | "write" => some .tauWrite | "read" => some .tauRead | "clone_mid" => some .tauClone
      | "view_mid" => some .tauView | "drop" => some .tauDrop | _ => none
  | _ => none

def parseWord (k : Kind) (w : String) : Word :=
  if w == "head" then .head else if w == "tc" then .tc else if w == "writers" then .writers
  else if w == "readers" then .readers else if w == "signal" then .signal
  else if w == "cwait" then .cwait else if w == "pwait" then .pwait
  else if w == "epoch" then .epoch else if w == "mxmgr" then .mxmgr else if w == "mxwtf" then .mxwtf
  else if w.startsWith "tok." then .tok (afterDot w)
  else if w.startsWith "tag." then .tag (afterDot w)
  else if w.startsWith "ref." then .ref (afterDot w)
  else if w.startsWith "val." then .val (afterDot w)
  else if w.startsWith "pos." then .pos (afterDot w)
  else if w.startsWith "ncons." then .ncons (afterDot w)
  else if w.startsWith "u." then
    match k with
    | .lock => .wlock
    | .cvwait | .cvnotify => .wcv
    | .load | .store => .loc
    | _ => .anon
  else .anon

def pcName (p : PC) : String :=
  let s := (repr p).pretty
  let s := if s.startsWith "MQ.PC." then (s.drop 6).toString else s
  ((s.splitOn " ").getD 0 s)

def resName (r : Res) : String := ((repr r).pretty.splitOn " ").getD 0 ""

def tokNat (pfx : String) (toks : List String) : Option Nat :=
  match toks.find? (fun x => x.startsWith pfx && ((x.drop pfx.length).toString.toNat?).isSome) with
  | some x => (x.drop pfx.length).toString.toNat?
  | none => none

/-- does the model's result agree with the harness' text -/
def resMatches (r : Res) (toks : List String) : Bool :=
  let h := toks.getD 0 ""
  let v := tokNat "v" (toks.drop 1)
  match r with
  | .ok => h == "ok"
  | .okv x => h == "ok" && v == some x
  | .full => h == "full"
  | .disc => h == "disc"
  | .empty => h == "empty"
  | .unit => h == "unit"
  | .bool b => h == toString b || h == "unit"
  | .new => h == "new"
  | .single => h == "single"
  | .notsingle => h == "notsingle"
  | .multi => h == "multi"
  | .ready => h == "ready"
  | .notready => h == "notready"
  | .err => h == "err"
  | .some_ x => h == "some" && v == some x
  | .none_ => h == "none"
  | .dropped => h == "dropped"
  | .panic => false

def parseWait (s : String) : WaitK :=
  match s.splitOn ":" with
  | ["busy"] => .busy
  | ["yield", a, b] => .yielding a.toNat! b.toNat!
  | ["block", a, b] => .blocking a.toNat! b.toNat!
  | ["fut", a, b] => .fut a.toNat! b.toNat!
  | _ => .busy

def kv (toks : List String) (key : String) : String :=
  match toks.find? (fun x => x.startsWith (key ++ "=")) with
  | some x => (x.drop (key.length + 1)).toString
  | none => ""

def npow2 (c : Nat) : Nat := Id.run do
  let mut n := 1
  for _ in [0:64] do
    if n < c then n := n * 2
  return n

def outerOf (op kind : String) : Option Outer :=
  let futU := kind == "BFU" || kind == "MFU"
  let futR := kind == "BFR" || kind == "MFR"
  match op with
  | "try_send" => some .trySend
  | "start_send" => some (.startSend 0 0)
  | "try_recv" => some (if futU then .futTryRecvView else .tryRecv)
  | "recv" => some (if futU then .futRecvView else .recv)
  | "try_recv_view" => some .tryRecvView
  | "recv_view" => some .recvView
  | "poll" => some (.poll futU)
  | "clone" => some .clone
  | "add_stream" => some .addStream
  | "drop" => some .drop
  | "unsub" => some .unsub
  | "into_single" => some (if futR then .intoSingleFut else .intoSingle)
  | "into_multi" => some (if futU then .intoMultiFut else .intoMulti)
  | _ => none

def fail (n : Nat) (msg : String) : Except String ASt := .error s!"line {n}: {msg}"

/-- threads (below `bound`) whose pc is `.arc` -/
def arcThreads (σ : St) (bound : Nat) : List Nat :=
  (List.range bound).filter fun t => match (σ.th t).pc with | .arc _ => true | _ => false

def isArc (σ : St) (t : Nat) : Bool := match (σ.th t).pc with | .arc _ => true | _ => false

def notePc (a : ASt) (t : Nat) : ASt :=
  let nm := pcName (a.σ.th t).pc
  if a.pcs.contains nm then a else { a with pcs := nm :: a.pcs }

/-- process one trace line -/
def acceptLine (a : ASt) (n : Nat) (line : String) : Except String ASt :=
  let toks := (line.trimAscii.toString.splitOn " ").filter (· != "")
  match toks with
  | "info" :: "cfg" :: rest =>
      let cap := (kv rest "cap").toNat!
      let N := if cap == 0 then 1 else npow2 cap
      let σ := init N (kv rest "flavour" == "bcast") (parseWait (kv rest "wait")) (kv rest "kind" == "fut")
      .ok { a with σ := σ, started := true }
  | "info" :: "cvwake" :: t :: _ =>
      let t := t.toNat!
      let σ' := step a.σ (.wake t)
      match (a.σ.th t).pc with
      | .wblk _ _ =>
          if (σ'.th t).pc == (a.σ.th t).pc then fail n s!"thread {t} woke from the condvar although the model has it still waiting or the lock held"
          else .ok { a with σ := σ' }
      | p => fail n s!"cvwake of thread {t} but model pc is {pcName p}"
  | "info" :: "panic" :: t :: _ =>
      let t := t.toNat!
      match (a.σ.th t).pc with
      | .ret .panic => .ok { a with dead := upd a.dead t true, σ := a.σ.goto t .idle, inCall := upd a.inCall t false }
      | p => fail n s!"real code panicked in thread {t}; model pc is {pcName p}"
  | "info" :: _ => .ok a
  | "spawn" :: _ => .ok a
  | "park" :: _ => .ok a
  | "note" :: _ => .ok { a with skipped := a.skipped + 1 }
  | "notify" :: t :: task :: _ =>
      let t := t.toNat!
      .ok { a with notes := upd a.notes t (a.notes t ++ [task.toNat!]) }
  | "call" :: t :: op :: rest =>
      let t := t.toNat!
      if op == "create" then .ok { a with skip := upd a.skip t true, inCall := upd a.inCall t true } else
      if op == "poll_complete" then .ok { a with skip := upd a.skip t true, inCall := upd a.inCall t true } else
      let g := (tokNat "g" rest).getD 0
      let kind := rest.getD 1 ""
      let v := (tokNat "v" (rest.drop 3)).getD 0
      let ng := (tokNat "ng" rest).getD 0
      let ns := (tokNat "ns" rest).getD 0
      match outerOf op kind with
      | none => fail n s!"unknown op {op}"
      | some o =>
          if (a.σ.th t).pc != .idle then fail n s!"call by thread {t} while the model has it at {pcName (a.σ.th t).pc}" else
          let σ' := step a.σ (.call t o g v ng ns)
          let hv := if eCallOKb a.σ t o g ng (max a.nth (t + 1)) then [] else [s!"ELabelOK-call@{n}"]
          let a' := { a with σ := σ', inCall := upd a.inCall t true, fences := upd a.fences t [],
                             notes := upd a.notes t [], calls := a.calls + 1, nth := max a.nth (t + 1), hyp := if a.hyp.length < 8 then a.hyp ++ hv else a.hyp }
          .ok (notePc a' t)
  | "ret" :: t :: rest =>
      let t := t.toNat!
      if a.skip t then .ok { a with skip := upd a.skip t false, inCall := upd a.inCall t false } else
      -- a thread that is about to release its reference does so now (it was not the last one)
      let a := if isArc a.σ t then { a with σ := step a.σ (.arc t) } else a
      let x := a.σ.th t
      match x.pc with
      | .ret r =>
          if !resMatches r rest then fail n s!"thread {t} returned '{" ".intercalate rest}', model expects {resName r} {repr r}" else
          if a.fences t != x.ff then fail n s!"thread {t}: fences before return differ: code {repr (a.fences t)} model {repr x.ff}" else
          if a.notes t != x.pn then fail n s!"thread {t}: task notifications before return differ: code {a.notes t} model {x.pn}" else
          let rn := resName r
          let hv := if eRetOKb a.σ t (max a.nth (t + 1)) then [] else [s!"ELabelOK-retn@{n}"]
          .ok { a with hyp := (if a.hyp.length < 8 then a.hyp ++ hv else a.hyp), σ := step a.σ (.retn t), inCall := upd a.inCall t false, fences := upd a.fences t [],
                       notes := upd a.notes t [], rets := if a.rets.contains rn then a.rets else rn :: a.rets }
      | p => fail n s!"thread {t} returned '{" ".intercalate rest}' but the model is at pc {pcName p} ({repr p})"
  | ["ev", t, k, w, o1, o2, av, bv, rv, okv, what] =>
      let t := t.toNat!
      if a.dead t then .ok a else
      if a.skip t || !(a.inCall t) then .ok { a with skipped := a.skipped + 1 } else
      if k == "fence" then .ok { a with fences := upd a.fences t (a.fences t ++ [parseOrd o1]) } else
      if filteredWord w then .ok { a with skipped := a.skipped + 1 } else
      match parseKind k what with
      | none => fail n s!"unknown event kind {k} {what}"
      | some kind =>
        -- an event by a thread that was about to release its reference: it runs the destructor, so
        -- every other releasing thread released before it
        let a := if isArc a.σ t then
            let others := (arcThreads a.σ 64).filter (· != t)
            let σ1 := others.foldl (fun σ u => step σ (.arc u)) a.σ
            { a with σ := step σ1 (.arc t) }
          else a
        let word := parseWord kind w
        let res := parseVal rv
        let (o, σ') := stepRun a.σ t (res % 2)
        let x := a.σ.th t
        let pcn := pcName x.pc
        let actual : Obs := { pre := a.fences t, notes := a.notes t, kind := kind, word := word, ord := parseOrd o1,
                              ord2 := parseOrd o2, a := parseVal av, b := parseVal bv, res := res, ok := okv == "1" }
        -- what is compared: taus and lock-like events have no operands; drops have no fixed address
        let wordOk := if kind == .tauDrop then true else o.word == actual.word
        let opsOk := match kind with
          | .tauWrite | .tauRead | .tauClone | .tauView | .tauDrop | .lock | .cvnotify | .yield_ | .cvwait => true
          | .trylock => o.ok == actual.ok
          | .sleep => true
          | .load => o.res == actual.res
          | .store => o.a == actual.a
          | .cas | .casw => o.a == actual.a && o.b == actual.b && o.res == actual.res && o.ok == actual.ok
          | _ => o.a == actual.a && o.res == actual.res
        if x.pc == .idle then fail n s!"event by thread {t} but the model has it idle: {line}" else
        if o.kind != actual.kind || !wordOk then
          fail n s!"thread {t} at pc {pcn}: model expects {repr o.kind} on {repr o.word}, code did: {line}"
        else if o.ord != actual.ord || o.ord2 != actual.ord2 then
          fail n s!"thread {t} at pc {pcn}: memory ordering differs: model {repr o.ord}/{repr o.ord2}, code: {line}"
        else if !opsOk then
          fail n s!"thread {t} at pc {pcn}: operands/result differ: model a={o.a} b={o.b} res={o.res} ok={o.ok}, code: {line}"
        else if o.pre != actual.pre then
          fail n s!"thread {t} at pc {pcn}: fences before the event differ: model {repr o.pre} code {repr actual.pre}"
        else if o.notes != actual.notes then
          fail n s!"thread {t} at pc {pcn}: task notifications differ: model {o.notes} code {actual.notes}"
        else
          let hv := (hypRun a.σ t (max a.nth (t + 1))).map fun h => s!"{h}@{n}:{pcn}"
          let a' := { a with σ := σ', events := a.events + 1, fences := upd a.fences t [], notes := upd a.notes t [],
                             hyp := if a.hyp.length < 8 then a.hyp ++ hv else a.hyp,
                             outside := if a.outside.isNone && !(triggersOKb a.σ t σ') then some n else a.outside }
          -- keep lookups cheap: every 64 events the thread table is rebuilt from a snapshot
          let a' := { a' with nth := max a'.nth (t + 1) }
          let a' := if a'.events % 64 == 0 then
              let arr := ((List.range (a'.nth + 1)).map a'.σ.th).toArray
              { a' with σ := { a'.σ with th := fun u => arr.getD u {} } }
            else a'
          .ok (notePc a' t)
  | [] => .ok a
  | _ => fail n s!"unparsed line: {line}"

def acceptAll (lines : List String) : Except String ASt := do
  let mut a : ASt := { σ := init 1 true .busy false }
  let mut n := 0
  for l in lines do
    n := n + 1
    a ← acceptLine a n l
  return a

end MQ
