/-!
# Core — micro-step model of multiqueue2 (hand-written; tied to the source by event correspondence)

One `run` step = one hooked shared-memory operation of the real code (or one `tau`: an unhooked
value write / read / clone body / payload drop). Import-free: the trace acceptor built on it is
compiled as a `lean_exe`.

Counts are unbounded `Nat`; slot tags are `Option Nat` (`none` = `INITIAL_QUEUE_FLAG`).
Words of the memory manager (mutexes, epoch, tokens, the epoch bit of `signal`) are not part of
this model (they are the `Epoch` model's); their events are projected away by the acceptor.
-/
namespace MQ

def upd {α : Type} (f : Nat → α) (i : Nat) (x : α) : Nat → α := fun j => if j = i then x else f j

@[simp] theorem upd_same {α} (f : Nat → α) (i x) : upd f i x i = x := by simp [upd]
@[simp] theorem upd_ne {α} (f : Nat → α) (i x j) (h : j ≠ i) : upd f i x j = f j := by simp [upd, h]

/-- shared words covered by the model -/
inductive Word where
  | head | tc | writers | readers | signal
  | tag (i : Nat) | ref (i : Nat) | val (i : Nat)
  | pos (s : Nat) | ncons (s : Nat)
  | wlock | wcv | cwait | pwait
  | epoch | tok (g : Nat) | mxmgr | mxwtf
  | loc      -- a `CountedIndex` local to the destructor
  | anon     -- a payload outside the ring (taus on it), fences, yields
  deriving DecidableEq, Repr, Inhabited

inductive Ord where | rlx | acq | rel | acqrel | sc | na
  deriving DecidableEq, Repr, Inhabited

inductive Kind where
  | load | store | cas | casw | fadd | fsub | for_ | fand | lock | trylock | cvwait | cvnotify | yield_ | sleep
  | tauWrite | tauRead | tauClone | tauView | tauDrop
  deriving DecidableEq, Repr, Inhabited

/-- What the model expects the next hooked event of a thread to be. -/
structure Obs where
  pre : List Ord := []        -- fences since the thread's previous event
  notes : List Nat := []      -- task notifications since the thread's previous event
  kind : Kind
  word : Word
  ord : Ord := .na
  ord2 : Ord := .na
  a : Nat := 0
  b : Nat := 0
  res : Nat := 0
  ok : Bool := true
  deriving Repr, Inhabited

def initFlag : Nat := 18446744073709551615

def encTag : Option Nat → Nat
  | none => initFlag
  | some t => t

inductive WaitK where
  | busy
  | yielding (a b : Nat)
  | blocking (a b : Nat)
  | fut (a b : Nat)
  deriving DecidableEq, Repr, Inhabited

def WaitK.needsNotify : WaitK → Bool
  | .busy => false
  | .yielding _ _ => false
  | _ => true

/-- result of an API call as the harness prints it -/
inductive Res where
  | ok | okv (v : Nat) | full | disc | empty | unit | bool (b : Bool) | new | single | notsingle | multi
  | ready | notready | err | some_ (v : Nat) | none_ | dropped | panic
  deriving DecidableEq, Repr, Inhabited

/-- which API call the thread is in (decides what happens when an inner try returns) -/
inductive Outer where
  | none
  | trySend | tryRecv | recv | tryRecvView | recvView
  | startSend (phase cnt : Nat)      -- phase 0: spins_first, 1: spins_yield, 2: under the lock
  | poll (view : Bool)
  | futTryRecvView | futRecvView     -- FutInnerUniRecv direct methods (notify_all afterwards)
  | clone | addStream | drop | unsub | intoSingle | intoMulti | intoSingleFut | intoMultiFut
  deriving DecidableEq, Repr, Inhabited

/-- phases of a wait -/
inductive WPh where
  | spin1 (k : Nat)      -- k checks left in the first spin loop
  | spin2 (k : Nat)      -- k (yield; check) rounds left
  | yloop (k : Nat)      -- Yielding: inside `loop { yield; k checks }`
  | busy
  | locked               -- Blocking: check under the lock
  | after                -- Blocking: check after the condvar wait
  | parked               -- FutWait::park: check under the list lock
  | futw                 -- FutWait::wait (blocking recv on a futures queue): check, yield, ...
  deriving DecidableEq, Repr, Inhabited

/-- heap objects that go through the memory manager -/
inductive Obj where
  | grp (k : Nat) | posO (s : Nat) | tokO (g : Nat)
  deriving DecidableEq, Repr, Inhabited

/-- where a memory-manager sub-program returns to -/
inductive MK where
  | sendStart | recvStart          -- `update_token` at the start of a send / receive
  | rmTok (k : Nat)                -- `update_token` inside `remove_token` (k: 0 sender drop, 1 receiver drop)
  | cloneS | retNew                -- `get_token` in sender clone / in receiver clone and add_stream
  | addFree                        -- `free(old group)` in add_stream
  | rmFree1 | rmFree2              -- the two `free` calls of remove_reader
  | rmTokFree (k : Nat)            -- `free(token)` inside `remove_token`
  deriving DecidableEq, Repr, Inhabited

inductive PC where
  | idle
  | ret (r : Res)
  -- send
  | s0 | m1
  | sh (multi : Bool)
  | st (multi : Bool) (h : Nat)
  | g1 (multi : Bool) (h t : Nat)
  | g2 (multi : Bool) (h t p i md : Nat)
  | g3 (multi : Bool) (h t p : Nat) (r : Option Nat)
  | tcs (h cur : Nat)
  | tcc (h t cur : Nat)
  | tcl (h : Nat)
  | rf (multi : Bool) (h : Nat)
  | hd (multi : Bool) (h : Nat)
  | tg (h : Nat)
  | wr (h : Nat) (old : Bool)
  | ts (h : Nat) (old : Bool)
  | od (h : Nat)
  -- notify sub-program; `after` says where to continue
  | nb1 (k : Nat) | nb2 (k : Nat)
  | nf (list : Bool) (k : Nat)          -- lock a FutWait list (false = consumers', true = producers')
  -- recv
  | r0 | la1 | la2
  | is1                               -- `is_single()` of `try_recv`: loaded before the position (F16)
  | r1 (p : Nat) (sg : Bool)
  | r2 (p : Nat) (sg : Bool)
  | r3 (p : Nat) (sg : Bool)
  | r3b (p : Nat) (sg : Bool)
  | r4 (p : Nat)
  | r5 (p : Nat) (sg : Bool)
  | r6 (p : Nat)
  | r7 (sg : Bool)
  | rd (p : Nat) (sg : Bool)
  | rc (p : Nat) (sg : Bool) (seen : Option Nat)
  | r8 (p : Nat) (x : Option Nat)
  | r9 (p : Nat) (sg : Bool) (x : Option Nat)
  | fg (p' : Nat) (sg : Bool)
  -- view
  | v1 (p : Nat) | v2 (p : Nat) | v3 (p : Nat)
  | vw (p : Nat) (seen : Option Nat) | vd (p : Nat) (x : Option Nat) | v4 (p : Nat) (x : Option Nat)
  -- waits
  | w0 (j : Nat)
  | c1 (j seq : Nat) (ph : WPh)
  | c2 (j seq : Nat) (ph : WPh) (tg : Option Nat)
  | wy (j seq : Nat) (ph : WPh)
  | wl (j seq : Nat)
  | wcvw (j seq : Nat)
  | wblk (j seq : Nat)
  | pk (j seq : Nat)
  | psl
  -- handle management
  | cs1 | ds1 | cr1 | dr1
  | rr1 | rr2 (cur ng : Nat) | rr3 (old : Nat) | rr4 | rr5
  | un1
  | a1 | a2 (cur : Nat) | a3 (cur raw ng : Nat)
  | isg
  | arc (r : Res)     -- about to release the handle's reference to the queue (no event)
  -- teardown
  | tdb (i : Nat) | tdbd (i : Nat)
  | tm1 (c : Nat) | tm2 (c : Nat) | tm3 (c : Nat) | tmd (c : Nat) | tm4 (c : Nat)
  | tdr               -- `Drop for ReadCursor`: load the last group pointer and release it
  | tdm               -- `Drop for MemoryManager`: lock the waiting list and release what is in it
  -- sink
  | sy | spl
  -- memory manager
  | u1 (k : MK) | u2 (k : MK) (e : Nat) | u3 (k : MK) (e : Nat)
  | gt1 (k : MK) | gt2 (k : MK)
  | f1 (k : MK) (x : Obj) | f2 (k : MK) | f3 (k : MK) | f4 (k : MK) (e i : Nat) | f5 (k : MK)
  | f7 (k : MK) | f8 (k : MK) | f9 (k : MK) (cur : Nat) | f10 (k : MK)
  | rt1 (k : Nat)
  deriving DecidableEq, Repr, Inhabited

structure Hd where
  sender : Bool := false
  stream : Nat := 0
  uni : Bool := true      -- Uni / Single cell state
  fut : Bool := false
  view : Bool := false
  alive : Bool := false
  used : Bool := false      -- the id has been handed out
  busy : Bool := false      -- some thread is inside a call on this handle
  tok : Nat := 0            -- id of the handle's memory token
  deriving Repr, Inhabited

structure Th where
  pc : PC := .idle
  g : Nat := 0
  v : Nat := 0
  outer : Outer := .none
  ff : List Ord := []       -- fences the model expects before the thread's next event / return
  pn : List Nat := []       -- task notifications expected likewise
  ng : Nat := 0             -- gid of a handle being created
  ns : Nat := 0             -- stream of a handle being created
  s : Nat := 0              -- stream of the handle (fixed at the call)
  single : Bool := false    -- ReadAttempt.state captured by load_attempt
  aux : Nat := 0            -- scratch: overwritten value id + 1 / unsubscribe's boolean
  deriving Repr, Inhabited

structure St where
  N : Nat
  bcast : Bool
  wait : WaitK
  head : Nat := 0
  tc : Nat := 0
  writers : Nat := 1
  tag : Nat → Option Nat := fun _ => none
  ref : Nat → Nat := fun _ => 0
  cont : Nat → Option Nat := fun _ => none      -- value id held by a slot (bits)
  pos : Nat → Nat := fun _ => 0
  ncons : Nat → Nat := fun _ => 0
  groups : Nat → List Nat := fun _ => []         -- group object id -> streams
  cur : Nat := 1                                -- current group object (ids from 1)
  nextGrp : Nat := 2
  noReader : Bool := false
  lastPos : Nat := 0
  hs : Nat → Hd := fun _ => {}
  th : Nat → Th := fun _ => {}
  -- wait state
  wlockOwner : Option Nat := none
  cvWaiters : List Nat := []
  cwaitL : List Nat := []      -- parked consumer tasks
  pwaitL : List Nat := []
  cwFor : Nat → Nat × Nat := fun _ => (0, 0)   -- ghost: slot and sequence number a parked consumer task waits for
  -- ghost
  log : List Nat := []
  dlv : Nat → List Nat := fun _ => []
  start : Nat → Nat := fun _ => 0
  drops : List Nat := []       -- value ids dropped by the queue (overwritten / in place / teardown)
  torn : Bool := false         -- a clone/view body saw the slot change (C04)
  taintAdd : Bool := false     -- F1 trigger happened
  taintNoStream : Bool := false -- the last stream was removed (F12 region: sends may still be in flight)
  live : Nat := 2              -- live handles
  sused : Nat → Bool := fun s => s == 0   -- stream ids handed out
  est : Nat → Bool := fun s => s == 0     -- streams that have been published in a reader group
  -- memory manager
  epoch : Nat := 0
  iepoch : Nat := 0                       -- `MemoryManagerInner.epoch`
  sigE : Bool := false                    -- signal bit 0 (update epoch)
  tokv : Nat → Nat := fun _ => 0          -- token id -> epoch value
  toks : List Nat := [0, 1]               -- registered tokens, in vector order
  wtf : List Obj := []                    -- `wait_to_free`
  tofree : List Obj := []                 -- `MemoryManagerInner.tofree`
  mgrOwner : Option Nat := none
  wtfOwner : Option Nat := none
  freed : List Obj := []                  -- ghost: everything deallocated through the manager so far
  sl : List Nat := [0]                    -- ghost: sender handles counted in `writers`
  cl : Nat → List Nat := fun s => if s = 0 then [1] else []   -- ghost: receiver handles counted in `num_consumers`

inductive Label where
  | call (t : Nat) (o : Outer) (g v ng ns : Nat)
  | run (t : Nat) (inp : Nat)        -- `inp`: value of words the model does not cover (signal epoch bit)
  | retn (t : Nat)
  | arc (t : Nat)                    -- the handle's `Arc` is released; the last one runs the destructor
  | wake (t : Nat)                   -- a condvar waiter that was notified re-acquires and releases the lock
  deriving Repr

namespace St

def setTh (σ : St) (t : Nat) (f : Th → Th) : St := { σ with th := upd σ.th t (f (σ.th t)) }
def goto (σ : St) (t : Nat) (pc : PC) : St := σ.setTh t fun x => { x with pc := pc }
def gotoF (σ : St) (t : Nat) (pc : PC) (f : List Ord) : St := σ.setTh t fun x => { x with pc := pc, ff := x.ff ++ f }
def setHd (σ : St) (g : Nat) (f : Hd → Hd) : St := { σ with hs := upd σ.hs g (f (σ.hs g)) }
def slot (σ : St) (p : Nat) : Nat := p % σ.N

end St

/-- take the pending fences / notifications of a thread -/
def St.flush (σ : St) (t : Nat) : St := σ.setTh t fun x => { x with ff := [], pn := [] }

def mkObs (σ : St) (t : Nat) (kind : Kind) (word : Word) (ord : Ord := .na) (ord2 : Ord := .na)
    (a b res : Nat := 0) (ok : Bool := true) : Obs :=
  { pre := (σ.th t).ff, notes := (σ.th t).pn, kind, word, ord, ord2, a, b, res, ok }

/-! ### continuations -/

/-- where a finished notify continues: `k` codes -/
def afterNotify (σ : St) (t : Nat) (k : Nat) : St :=
  -- 0: return ok (try_send) ; 1: start_send second notify ; 2: ret ready ; 3: ret dropped (sender drop, then teardown)
  -- 4: ret some v (poll) ; 5: ret okv (fut uni direct) ; 6: receiver drop epilogue -> teardown/ret
  match k with
  | 0 => σ.goto t (.ret .ok)
  | 2 => σ.goto t (.ret .ready)
  | 4 => σ.goto t (.ret (.some_ (σ.th t).v))
  | 3 => σ.goto t (.arc .dropped)
  | _ => σ.goto t (.ret .dropped)

/-- the program that runs when the last handle is gone -/
def teardownStart (σ : St) (t : Nat) (r : Res) : St := σ.goto t (.arc r)

/-- releasing the `Arc`: the last handle runs `Drop for MultiQueue` -/
def arcStep (σ : St) (t : Nat) (r : Res) : St :=
  let σ1 := { σ with live := σ.live - 1 }
  if σ1.live = 0 then
    if σ.bcast then σ1.goto t (.tdb 0) else σ1.goto t (.tm1 σ.lastPos)
  else σ1.goto t (.ret r)

/-- start the waiter's `notify` and continue with code `k` -/
def startNotify (σ : St) (t : Nat) (k : Nat) : St :=
  match σ.wait with
  | .blocking _ _ => σ.goto t (.nb1 k)
  | .fut _ _ => σ.goto t (.nf false k)
  | _ => afterNotify σ t k

/-- an inner `try_send` finished with `r` -/
def sendDone (σ : St) (t : Nat) (r : Res) : St :=
  let x := σ.th t
  match x.outer with
  | .startSend ph cnt =>
      match r with
      | .ok => if σ.wait.needsNotify then startNotify σ t 1 else σ.goto t (.ret .ready)
      | .disc => σ.goto t (.ret .err)
      | _ =>
        -- Full: next round of send_or_park
        match σ.wait with
        | .fut a b =>
          if ph = 0 then
            if cnt + 1 < a then (σ.setTh t fun y => { y with outer := .startSend 0 (cnt+1) }).goto t .s0
            else if 0 < b then (σ.setTh t fun y => { y with outer := .startSend 1 0 }).goto t .sy
            else (σ.setTh t fun y => { y with outer := .startSend 2 0 }).goto t .spl
          else if ph = 1 then
            if cnt + 1 < b then (σ.setTh t fun y => { y with outer := .startSend 1 (cnt+1) }).goto t .sy
            else (σ.setTh t fun y => { y with outer := .startSend 2 0 }).goto t .spl
          else
            -- under the lock: push current(), unlock, NotReady
            ({ σ with pwaitL := σ.pwaitL ++ [t] }).goto t (.ret .notready)
        | _ => σ.goto t (.ret .notready)
  | _ =>
      match r with
      | .ok => if σ.wait.needsNotify then startNotify σ t 0 else σ.goto t (.ret .ok)
      | r => σ.goto t (.ret r)

/-- start a wait on slot `j` with sequence `seq` -/
def startWait (σ : St) (t : Nat) (j seq : Nat) : St :=
  let o := (σ.th t).outer
  let blockingCall := o = Outer.recv || o = Outer.recvView || o = Outer.futRecvView
  match σ.wait with
  | .fut a b =>
      if blockingCall then σ.goto t (.c1 j seq .futw)
      else if 0 < a then σ.goto t (.c1 j seq (.spin1 a))
      else if 0 < b then σ.goto t (.wy j seq (.spin2 b))
      else σ.goto t (.pk j seq)
  | .busy => σ.goto t (.c1 j seq .busy)
  | .yielding a b => if 0 < a then σ.goto t (.c1 j seq (.spin1 a)) else σ.goto t (.wy j seq (.yloop (max b 1)))
  | .blocking a b =>
      if 0 < a then σ.goto t (.c1 j seq (.spin1 a))
      else if 0 < b then σ.goto t (.wy j seq (.spin2 b))
      else σ.goto t (.wl j seq)

/-- an inner `try_recv`/`try_recv_view` finished: `r` is `okv v`, `empty` (slot j) or `disc` -/
def recvDone (σ : St) (t : Nat) (r : Res) (j : Nat) : St :=
  let x := σ.th t
  match x.outer with
  | .recv | .recvView | .futRecvView =>
      match r with
      | .okv v => if x.outer = .futRecvView || (σ.hs x.g).fut then (σ.setTh t fun y => { y with v := v }).goto t (.nf true 5) else σ.goto t (.ret (.okv v))
      | .disc => if x.outer = .futRecvView || (σ.hs x.g).fut then (σ.setTh t fun y => { y with v := 0 }).goto t (.nf true 7) else σ.goto t (.ret .disc)
      | _ =>
        -- the blocking `recv` of a futures receiver wakes the senders before it waits (F17; as `poll` does)
        if x.outer = Outer.recv && (σ.hs x.g).fut then (σ.setTh t fun y => { y with aux := j }).goto t (.nf true 12)
        else σ.goto t (.w0 j)
  | .poll _ =>
      match r with
      | .okv v => (σ.setTh t fun y => { y with v := v }).goto t (.nf true 4)
      | .disc => σ.goto t (.ret .none_)
      | _ =>
        -- the shared-stream poll wakes the senders before it waits (a pin may have been given up)
        if x.outer = Outer.poll false then (σ.setTh t fun y => { y with aux := j }).goto t (.nf true 12)
        else σ.goto t (.w0 j)
  | .futTryRecvView =>
      match r with
      | .okv v => (σ.setTh t fun y => { y with v := v }).goto t (.nf true 5)
      | .disc => (σ.setTh t fun y => { y with v := 0 }).goto t (.nf true 7)
      | _ => (σ.setTh t fun y => { y with v := 0 }).goto t (.nf true 8)
  | _ =>
      if (σ.hs x.g).fut then
        match r with
        | .okv v => (σ.setTh t fun y => { y with v := v }).goto t (.nf true 5)
        | .disc => σ.goto t (.nf true 7)
        | _ => σ.goto t (.nf true 8)
      else σ.goto t (.ret r)

/-- a wait finished (check was true): retry the receive -/
def waitDone (σ : St) (t : Nat) : St :=
  let x := σ.th t
  match x.outer with
  | .recvView | .futRecvView | .poll true => σ.goto t .la1
  | _ => σ.goto t .is1

/-- `check` evaluated to `b` in phase `ph` -/
def checkDone (σ : St) (t : Nat) (j seq : Nat) (ph : WPh) (b : Bool) : St :=
  match ph with
  | .busy => if b then waitDone σ t else σ.goto t (.c1 j seq .busy)
  | .spin1 k =>
      if b then waitDone σ t
      else if 1 < k then σ.goto t (.c1 j seq (.spin1 (k-1)))
      else match σ.wait with
        | .yielding _ b2 => σ.goto t (.wy j seq (.yloop (max b2 1)))
        | .blocking _ b2 => if 0 < b2 then σ.goto t (.wy j seq (.spin2 b2)) else σ.goto t (.wl j seq)
        | .fut _ b2 => if 0 < b2 then σ.goto t (.wy j seq (.spin2 b2)) else σ.goto t (.pk j seq)
        | .busy => σ.goto t (.c1 j seq .busy)
  | .spin2 k =>
      if b then waitDone σ t
      else if 1 < k then σ.goto t (.wy j seq (.spin2 (k-1)))
      else match σ.wait with
        | .fut _ _ => σ.goto t (.pk j seq)
        | _ => σ.goto t (.wl j seq)
  | .yloop k =>
      if b then waitDone σ t
      else if 1 < k then σ.goto t (.c1 j seq (.yloop (k-1)))
      else match σ.wait with
        | .yielding _ b2 => σ.goto t (.wy j seq (.yloop (max b2 1)))
        | _ => σ.goto t (.wy j seq (.yloop 1))
  | .locked =>
      -- under the BlockingWait lock
      if b then waitDone { σ with wlockOwner := none } t
      else σ.goto t (.wcvw j seq)
  | .after => if b then waitDone σ t else σ.goto t (.wl j seq)
  | .parked =>
      -- FutWait::park under the list lock
      if b then waitDone σ t       -- unlock, fut_wait returns false: loop
      else ({ σ with cwaitL := σ.cwaitL ++ [t], cwFor := upd σ.cwFor t (j, seq) }).goto t .psl
  | .futw => if b then waitDone σ t else σ.goto t (.wy j seq .futw)

/-- end of a receiver drop (after `remove_token`): fence SeqCst; f(): futures receivers notify the producers'
list; then the handle's reference is released -/
def recvDropTail (σ : St) (t : Nat) : St :=
  let x := σ.th t
  let r : Res := match x.outer with | .unsub => .bool (x.aux = 1) | _ => .dropped
  let h_ := σ.hs x.g
  if h_.fut then
    (σ.setTh t fun y => { y with ff := y.ff ++ [.sc] }).goto t (.nf true (match x.outer with | .unsub => 9 | .intoSingleFut => 10 | .intoMultiFut => 11 | _ => 6))
  else (teardownStart σ t r).setTh t fun y => { y with ff := y.ff ++ [.sc] }

/-- end of a sender drop (after `remove_token`): `waiter.notify()`, then the reference is released -/
def sendDropTail (σ : St) (t : Nat) : St :=
  match σ.wait with
  | .blocking _ _ => σ.goto t (.nb1 3)
  | .fut _ _ => σ.goto t (.nf false 6)
  | _ => teardownStart σ t .dropped

/-- where a finished memory-manager sub-program continues -/
def mgrDone (σ : St) (t : Nat) (k : MK) : St :=
  let x := σ.th t
  match k with
  | .sendStart =>
      if σ.noReader then sendDone σ t .disc
      else if (σ.hs x.g).uni then σ.goto t (.sh false) else σ.goto t .m1
  | .recvStart =>
      match x.outer with
      | .tryRecvView | .recvView | .futTryRecvView | .futRecvView | .poll true => σ.goto t .la1
      | _ => σ.goto t .is1
  | .rmTok kk => σ.goto t (.rt1 kk)
  | .cloneS => σ.goto t .cs1
  | .retNew =>
      match x.outer with
      | .intoMultiFut | .intoSingleFut => σ.goto t .dr1
      | _ => σ.goto t (.ret .new)
  | .addFree => σ.goto t (.gt1 .retNew)
  | .rmFree1 => σ.goto t (.f1 .rmFree2 (.posO x.s))
  | .rmFree2 => σ.goto t .rr4
  | .rmTokFree kk =>
      if kk = 0 then sendDropTail σ t else recvDropTail σ t

/-- tail of `free`: if more than 20 objects wait, try to start a reclamation cycle; else release the list lock -/
def freeTail (σ : St) (t : Nat) (k : MK) : St :=
  if σ.wtf.length > 20 then σ.goto t (.f7 k)
  else mgrDone { σ with wtfOwner := none } t k

/-- `free` leaves: releases the list lock -/
def freeEnd (σ : St) (t : Nat) (k : MK) : St :=
  mgrDone { σ with wtfOwner := none } t k

/-- Nat-level meaning of `wait::check(seq, tag, writers)` -/
def checkVal (seq : Nat) (tg : Option Nat) (writers : Nat) : Bool :=
  writers == 0 ||
  (match tg with
   | none => false               -- INITIAL_QUEUE_FLAG: nothing was written to the slot yet
   | some c => seq == c || seq < c)

/-! ### the step function: expected observation and successor state -/

def defaultObs : Obs := { kind := .yield_, word := .anon }

/-- One `run` step of thread `t`. Returns the expected observation and the next state
(with the thread's pending fences/notifications consumed). -/
def stepRun (σ0 : St) (t : Nat) (inp : Nat) : Obs × St :=
  let x := σ0.th t
  let σ := σ0.flush t
  let g := x.g
  let h_ := σ0.hs g
  let s := x.s
  let N := σ0.N
  match x.pc with
  | .idle => (defaultObs, σ0)
  | .ret _ => (defaultObs, σ0)
  ---------------------------------------------------------------- send
  | .s0 =>
      let flags := (if σ0.noReader then 2 else 0) + (if σ0.sigE then 1 else 0)
      let o := mkObs σ0 t .load .signal .rlx (res := flags)
      -- handle_signals: the epoch bit makes the handle refresh its token first
      if σ0.sigE then (o, σ.goto t (.u1 .sendStart)) else (o, mgrDone σ t .sendStart)
  | .m1 =>
      let o := mkObs σ0 t .load .writers .rlx (res := σ0.writers)
      if σ0.writers = 1 then (o, (σ.setHd g fun y => { y with uni := true }).gotoF t (.sh false) [.acq])
      else (o, σ.goto t (.sh true))
  | .sh m => (mkObs σ0 t .load .head .rlx (res := σ0.head), σ.goto t (.st m σ0.head))
  | .st m h =>
      let o := mkObs σ0 t .load .tc .rlx (res := σ0.tc)
      if h = σ0.tc + N then (o, σ.goto t (.g1 m h σ0.tc)) else
      if σ0.bcast then (o, σ.goto t (.rf m h)) else (o, σ.gotoF t (.hd m h) [.acq])
  | .g1 m h tl =>
      let o := mkObs σ0 t .load .readers .acq (res := σ0.cur)
      let grp := σ0.groups σ0.cur
      -- no stream left: the ring counts as full, not as empty (F12)
      if grp.length = 0 then (o, σ.goto t (.g3 m h tl σ0.cur (some N)))
      else (o, σ.goto t (.g2 m h tl σ0.cur 0 0))
  | .g2 m h tl p i md =>
      let grp := σ0.groups p
      let sid := grp.getD i 0
      let rp := σ0.pos sid
      let o := mkObs σ0 t .load (.pos sid) .acq (res := rp)
      if h < rp then (o, σ.goto t (.g3 m h tl p none))
      else
        let md' := max md (h - rp)
        if i + 1 < grp.length then (o, σ.goto t (.g2 m h tl p (i+1) md'))
        else (o, σ.goto t (.g3 m h tl p (some md')))
  | .g3 m h tl p r =>
      let o := mkObs σ0 t .load .readers .rlx (res := σ0.cur)
      if σ0.cur = p then
        match r, m with
        | some md, false => (o, σ.goto t (.tcs h (h - md)))
        | some md, true =>
            let cur := h - md
            if tl = cur then
              if h = cur + N then (o, sendDone σ t .full)
              else if σ0.bcast then (o, σ.goto t (.rf true h)) else (o, σ.gotoF t (.hd true h) [.acq])
            else (o, σ.goto t (.tcc h tl cur))
        | none, true => (o, σ.goto t (.tcl h))
        | none, false => (o, σ.goto t (.ret .panic))
      else (o, σ.goto t (.g1 m h tl))
  | .tcs h cur =>
      let o := mkObs σ0 t .store .tc .rlx (a := cur)
      let σ1 := { σ with tc := cur }
      if h = cur + N then (o, sendDone σ1 t .full)
      else if σ0.bcast then (o, σ1.goto t (.rf false h)) else (o, σ1.gotoF t (.hd false h) [.acq])
  | .tcc h tl cur =>
      let okk := σ0.tc = tl
      let o := mkObs σ0 t .cas .tc .acqrel .rlx (a := tl) (b := cur) (res := σ0.tc) (ok := okk)
      let σ1 := if okk then { σ with tc := cur } else σ
      let nt := if okk then cur else σ0.tc
      if h = nt + N then (o, sendDone σ1 t .full)
      else if σ0.bcast then (o, σ1.goto t (.rf true h)) else (o, σ1.gotoF t (.hd true h) [.acq])
  | .tcl h =>
      let o := mkObs σ0 t .load .tc .acq (res := σ0.tc)
      if h = σ0.tc + N then (o, sendDone σ t .full)
      else if σ0.bcast then (o, σ.goto t (.rf true h)) else (o, σ.gotoF t (.hd true h) [.acq])
  | .rf m h =>
      let o := mkObs σ0 t .load (.ref (h % N)) .rlx (res := σ0.ref (h % N))
      if σ0.ref (h % N) = 0 then (o, σ.gotoF t (.hd m h) [.acq]) else (o, sendDone σ t .full)
  | .hd false h =>
      (mkObs σ0 t .store .head .rlx (a := h + 1),
       ({ σ with head := h + 1, log := σ0.log ++ [x.v] }).goto t (.tg h))
  | .hd true h =>
      let okk := σ0.head = h
      let o := mkObs σ0 t .casw .head .rlx .rlx (a := h) (b := h + 1) (res := σ0.head) (ok := okk)
      if okk then (o, ({ σ with head := h + 1, log := σ0.log ++ [x.v] }).goto t (.tg h))
      else (o, σ.goto t (.st true σ0.head))
  | .tg h =>
      let tg := σ0.tag (h % N)
      (mkObs σ0 t .load (.tag (h % N)) .rlx (res := encTag tg), σ.goto t (.wr h (σ0.bcast && tg.isSome)))
  | .wr h old =>
      let prev := σ0.cont (h % N)
      let σ1 := { σ with cont := upd σ0.cont (h % N) (some x.v) }
      -- the overwritten value is remembered in `ns` (as id+1) until it is dropped
      let σ2 := σ1.setTh t fun y => { y with aux := match prev with | some w => w + 1 | none => 0 }
      (mkObs σ0 t .tauWrite (.val (h % N)), σ2.goto t (.ts h old))
  | .ts h old =>
      let o := mkObs σ0 t .store (.tag (h % N)) .rel (a := h)
      let σ1 := { σ with tag := upd σ0.tag (h % N) (some h) }
      if old then (o, σ1.goto t (.od h)) else (o, sendDone σ1 t .ok)
  | .od _ =>
      let σ1 := { σ with drops := σ0.drops ++ [x.aux - 1] }
      (mkObs σ0 t .tauDrop .anon, sendDone σ1 t .ok)
  ---------------------------------------------------------------- notify
  | .nb1 k => (mkObs σ0 t .lock .wlock, ({ σ with wlockOwner := some t }).goto t (.nb2 k))
  | .nb2 k =>
      -- notify_all, then the guard is dropped
      let σ1 := { σ with wlockOwner := none, cvWaiters := [] }
      (mkObs σ0 t .cvnotify .wcv, afterNotify σ1 t k)
  | .nf lst k =>
      -- lock the list, drain it, notify every task (order of notifications = list order)
      let l := if lst then σ0.pwaitL else σ0.cwaitL
      let σ1 := if lst then { σ with pwaitL := [] } else { σ with cwaitL := [] }
      let σ2 := σ1.setTh t fun y => { y with pn := y.pn ++ l }
      let o := mkObs σ0 t .lock (if lst then .pwait else .cwait)
      match k with
      | 1 => (o, startNotify2 σ2 t)
      | 4 => (o, σ2.goto t (.ret (.some_ x.v)))
      | 5 => (o, σ2.goto t (.ret (.okv x.v)))
      | 6 => (o, teardownStart σ2 t .dropped)
      | 7 => (o, σ2.goto t (.ret .disc))
      | 8 => (o, σ2.goto t (.ret .empty))
      | 9 => (o, teardownStart σ2 t (.bool (x.aux = 1)))
      | 10 => (o, σ2.goto t .isg)
      | 11 => (o, σ2.goto t (.ret .multi))
      | 12 => (o, σ2.goto t (.w0 x.aux))
      | k => (o, afterNotify σ2 t k)
  ---------------------------------------------------------------- recv
  | .r0 =>
      let flags := (if σ0.noReader then 2 else 0) + (if σ0.sigE then 1 else 0)
      let o := mkObs σ0 t .load .signal .rlx (res := flags)
      if σ0.sigE then (o, σ.goto t (.u1 .recvStart))
      else
        match x.outer with
        | .tryRecvView | .recvView | .futTryRecvView | .futRecvView | .poll true => (o, σ.goto t .la1)
        | _ => (o, σ.goto t .is1)
  | .la1 =>
      if h_.uni then stepLa2 σ0 σ t x s
      else
        let o := mkObs σ0 t .load (.ncons s) .rlx (res := σ0.ncons s)
        if σ0.ncons s = 1 then (o, (σ.setHd g fun y => { y with uni := true }).gotoF t .la2 [.acq])
        else (o, σ.goto t .la2)
  | .la2 => stepLa2 σ0 σ t x s
  | .is1 =>
      -- `try_recv` evaluates `is_single()` once per attempt, before `load_attempt`
      let o := mkObs σ0 t .load (.ncons s) .rlx (res := σ0.ncons s)
      (o, (σ.setTh t fun y => { y with aux := if σ0.ncons s = 1 then 1 else 0 }).goto t .la1)
  | .r1 p sg =>
      let tg := σ0.tag (p % N)
      let o := mkObs σ0 t .load (.tag (p % N)) .acq (res := encTag tg)
      if tg = some p then
        if sg then (o, σ.goto t (.rd p sg))
        else if σ0.bcast then (o, σ.goto t (.r4 p)) else (o, σ.goto t (.r5 p sg))
      else (o, σ.goto t (.r2 p sg))
  | .r2 p sg =>
      let o := mkObs σ0 t .load .writers .rlx (res := σ0.writers)
      if σ0.writers = 0 then (o, σ.gotoF t (.r3 p sg) [.acq]) else (o, recvDone σ t .empty (p % N))
  | .r3 p sg =>
      let tg := σ0.tag (p % N)
      let o := mkObs σ0 t .load (.tag (p % N)) .acq (res := encTag tg)
      if tg = some p then (o, recvDone σ t .empty (p % N)) else (o, σ.goto t (.r3b p sg))
  | .r3b p sg =>
      -- the position may have been taken by a sibling consumer: then the mismatch means nothing
      let o := mkObs σ0 t .load (.pos s) .rlx (res := σ0.pos s)
      if σ0.pos s = p then (o, recvDone σ t .disc (p % N)) else (o, σ.goto t (.r7 sg))
  | .r4 p =>
      (mkObs σ0 t .fadd (.ref (p % N)) .rlx (a := 1) (res := σ0.ref (p % N)),
       ({ σ with ref := upd σ0.ref (p % N) (σ0.ref (p % N) + 1) }).goto t (.r5 p false))
  | .r5 p sg =>
      let o := mkObs σ0 t .load (.pos s) .rlx (res := σ0.pos s)
      if σ0.pos s = p then (o, σ.goto t (.rd p sg))
      else if σ0.bcast then (o, σ.goto t (.r6 p)) else (o, σ.goto t (.r7 sg))
  | .r6 p =>
      (mkObs σ0 t .fsub (.ref (p % N)) .rlx (a := 1) (res := σ0.ref (p % N)),
       ({ σ with ref := upd σ0.ref (p % N) (σ0.ref (p % N) - 1) }).goto t (.r7 false))
  | .r7 sg =>
      (mkObs σ0 t .load (.pos s) .rlx (res := σ0.pos s), σ.goto t (.r1 (σ0.pos s) sg))
  | .rd p sg =>
      let c := σ0.cont (p % N)
      let o := mkObs σ0 t .tauRead (.val (p % N))
      if σ0.bcast then (o, σ.goto t (.rc p sg c))
      else
        -- bitwise move: the value read is `c`
        (o, σ.gotoF t (.r9 p sg c) [.rel])
  | .rc p sg seen =>
      let c := σ0.cont (p % N)
      let σ1 := if c = seen then σ else { σ with torn := true }
      let o := mkObs σ0 t .tauClone (.val (p % N))
      if sg then (o, σ1.gotoF t (.r9 p sg seen) [.rel]) else (o, σ1.gotoF t (.r8 p seen) [.rel])
  | .r8 p c =>
      (mkObs σ0 t .fsub (.ref (p % N)) .rlx (a := 1) (res := σ0.ref (p % N)),
       ({ σ with ref := upd σ0.ref (p % N) (σ0.ref (p % N) - 1) }).goto t (.r9 p false c))
  | .r9 p sg c =>
      let v := c.getD 0
      if x.single then
        (mkObs σ0 t .store (.pos s) .rlx (a := p + 1),
         recvDone ({ σ with pos := upd σ0.pos s (p + 1), dlv := upd σ0.dlv s (σ0.dlv s ++ [v]) }) t (.okv v) (p % N))
      else
        let okk := σ0.pos s = p
        let o := mkObs σ0 t .casw (.pos s) .rlx .rlx (a := p) (b := p + 1) (res := σ0.pos s) (ok := okk)
        if okk then
          (o, recvDone ({ σ with pos := upd σ0.pos s (p + 1), dlv := upd σ0.dlv s (σ0.dlv s ++ [v]) }) t (.okv v) (p % N))
        else if σ0.bcast then (o, σ.goto t (.fg (σ0.pos s) sg))
        else (o, σ.goto t (.r1 (σ0.pos s) sg))
  | .fg p' sg => (mkObs σ0 t .tauDrop .anon, σ.goto t (.r1 p' sg))
  ---------------------------------------------------------------- view
  | .v1 p =>
      let tg := σ0.tag (p % N)
      let o := mkObs σ0 t .load (.tag (p % N)) .acq (res := encTag tg)
      if tg = some p then (o, σ.goto t (.vw p (σ0.cont (p % N)))) else (o, σ.goto t (.v2 p))
  | .v2 p =>
      let o := mkObs σ0 t .load .writers .rlx (res := σ0.writers)
      if σ0.writers = 0 then (o, σ.gotoF t (.v3 p) [.acq]) else (o, recvDone σ t .empty (p % N))
  | .v3 p =>
      let tg := σ0.tag (p % N)
      let o := mkObs σ0 t .load (.tag (p % N)) .acq (res := encTag tg)
      if tg = some p then (o, recvDone σ t .empty (p % N)) else (o, recvDone σ t .disc (p % N))
  | .vw p seen =>
      let c := σ0.cont (p % N)
      let σ1 := if c = seen then σ else { σ with torn := true }
      let o := mkObs σ0 t .tauView (.val (p % N))
      if σ0.bcast then (o, σ1.goto t (.v4 p seen)) else (o, σ1.goto t (.vd p seen))
  | .vd p c =>
      (mkObs σ0 t .tauDrop (.val (p % N)), ({ σ with drops := σ0.drops ++ [c.getD 0] }).goto t (.v4 p c))
  | .v4 p c =>
      let v := c.getD 0
      (mkObs σ0 t .store (.pos s) .rel (a := p + 1),
       recvDone ({ σ with pos := upd σ0.pos s (p + 1), dlv := upd σ0.dlv s (σ0.dlv s ++ [v]) }) t (.okv v) (p % N))
  ---------------------------------------------------------------- waits
  | .w0 j =>
      -- the count is re-loaded here; `recv` and the shared `poll` retry when it lives in another slot
      let o := mkObs σ0 t .load (.pos s) .rlx (res := σ0.pos s)
      let guarded := x.outer = Outer.recv || x.outer = Outer.poll false
      if guarded && σ0.pos s % N != j then (o, σ.goto t .is1) else (o, startWait σ t j (σ0.pos s))
  | .c1 j seq ph =>
      (mkObs σ0 t .load (.tag j) .rlx (res := encTag (σ0.tag j)), σ.goto t (.c2 j seq ph (σ0.tag j)))
  | .c2 j seq ph tg =>
      (mkObs σ0 t .load .writers .rlx (res := σ0.writers), checkDone σ t j seq ph (checkVal seq tg σ0.writers))
  | .wy j seq ph =>
      match ph with
      | ph => (mkObs σ0 t .yield_ .anon, σ.goto t (.c1 j seq ph))
  | .wl j seq => (mkObs σ0 t .lock .wlock, ({ σ with wlockOwner := some t }).goto t (.c1 j seq .locked))
  | .wcvw j seq =>
      -- condvar wait: releases the lock, blocks; when it resumes it holds the lock again and then
      -- drops the guard at the end of the block
      (mkObs σ0 t .cvwait .wcv (a := 0), ({ σ with wlockOwner := none, cvWaiters := σ0.cvWaiters ++ [t] }).goto t (.wblk j seq))
  | .wblk _ _ => (defaultObs, σ0)
  | .arc _ => (defaultObs, σ0)
  | .pk j seq => (mkObs σ0 t .lock .cwait, σ.goto t (.c1 j seq .parked))
  | .psl => (mkObs σ0 t .sleep .anon (a := 100), σ.goto t (.ret .notready))
  ---------------------------------------------------------------- handle management
  | .cs1 =>
      (mkObs σ0 t .fadd .writers .sc (a := 1) (res := σ0.writers),
       ({ σ with writers := σ0.writers + 1, live := σ0.live + 1, sl := σ0.sl ++ [x.ng] }).goto t (.ret .new))
  | .ds1 =>
      let σ1 := { σ with writers := σ0.writers - 1, sl := σ0.sl.erase g }
      let o := mkObs σ0 t .fsub .writers .sc (a := 1) (res := σ0.writers)
      -- fence, remove_token (manager), then waiter.notify()
      -- fence, then remove_token (which starts with update_token), then waiter.notify()
      (o, σ1.gotoF t (.u1 (.rmTok 0)) [.sc])
  | .cr1 =>
      (mkObs σ0 t .fadd (.ncons s) .sc (a := 1) (res := σ0.ncons s),
       (({ σ with ncons := upd σ0.ncons s (σ0.ncons s + 1), cl := upd σ0.cl s (σ0.cl s ++ [x.ng]), live := if x.outer = Outer.intoSingleFut then σ0.live else σ0.live + 1 }).setHd g fun y => { y with uni := false }).goto t
         (.gt1 .retNew))
  | .un1 =>
      -- [F9] the boolean comes from this load, not from the decrement
      (mkObs σ0 t .load (.ncons s) .rlx (res := σ0.ncons s),
       (σ.setTh t fun y => { y with aux := if σ0.ncons s = 1 then 1 else 0 }).goto t .dr1)
  | .dr1 =>
      let o := mkObs σ0 t .fsub (.ncons s) .sc (a := 1) (res := σ0.ncons s)
      -- `unsubscribe` reports whether this decrement was the one that took the count from 1 to 0
      let σ1 := ({ σ with ncons := upd σ0.ncons s (σ0.ncons s - 1),
                          cl := upd σ0.cl s ((σ0.cl s).erase (if x.outer = Outer.intoSingleFut then x.ng else g)) }).setTh t
                  fun y => { y with aux := if σ0.ncons s = 1 then 1 else 0 }
      if σ0.ncons s = 1 then (o, σ1.goto t .rr1) else (o, σ1.goto t (.u1 (.rmTok 1)))
  | .rr1 =>
      -- the replacement group is allocated right after this load
      (mkObs σ0 t .load .readers .acq (res := σ0.cur),
       ({ σ with nextGrp := σ0.nextGrp + 1,
                 groups := upd σ0.groups σ0.nextGrp ((σ0.groups σ0.cur).filter (· != s)) }).goto t (.rr2 σ0.cur σ0.nextGrp))
  | .rr2 cur ng =>
      let okk := σ0.cur = cur
      let o := mkObs σ0 t .cas .readers .sc .sc (a := cur) (b := ng) (res := σ0.cur) (ok := okk)
      if okk then
        let σ2 := { σ with cur := ng, taintNoStream := σ0.taintNoStream || (σ0.groups ng).length == 0 }
        if (σ0.groups cur).length = 1 then (o, σ2.gotoF t (.rr3 cur) [.sc])
        else (o, σ2.gotoF t (.f1 .rmFree1 (.grp cur)) [.sc])
      else
        -- the unpublished group is thrown away and a new one is built from the group seen by the CAS
        (o, ({ σ with nextGrp := σ0.nextGrp + 1,
                      groups := upd σ0.groups σ0.nextGrp ((σ0.groups σ0.cur).filter (· != s)) }).goto t (.rr2 σ0.cur σ0.nextGrp))
  | .rr3 old =>
      (mkObs σ0 t .load (.pos s) .rlx (res := σ0.pos s), ({ σ with lastPos := σ0.pos s }).goto t (.f1 .rmFree1 (.grp old)))
  | .rr4 =>
      let o := mkObs σ0 t .load .readers .acq (res := σ0.cur)
      if (σ0.groups σ0.cur).length = 0 then (o, σ.goto t .rr5) else (o, σ.goto t (.u1 (.rmTok 1)))
  | .rr5 =>
      let flags := (if σ0.noReader then 2 else 0) + (if σ0.sigE then 1 else 0)
      (mkObs σ0 t .for_ .signal .sc (a := 2) (res := flags), ({ σ with noReader := true }).goto t (.u1 (.rmTok 1)))
  | .a1 => (mkObs σ0 t .load .readers .acq (res := σ0.cur), σ.goto t (.a2 σ0.cur))
  | .a2 cur =>
      (mkObs σ0 t .load (.pos s) .rlx (res := σ0.pos s),
       ({ σ with nextGrp := σ0.nextGrp + 1,
                 groups := upd σ0.groups σ0.nextGrp (σ0.groups cur ++ [x.ns]) }).gotoF t (.a3 cur (σ0.pos s) σ0.nextGrp) [.sc])
  | .a3 cur raw ng =>
      let okk := σ0.cur = cur
      let o := mkObs σ0 t .cas .readers .rlx .rlx (a := cur) (b := ng) (res := σ0.cur) (ok := okk)
      let σ1 := σ
      if okk then
        let σ2 := { σ1 with cur := ng, pos := upd σ0.pos x.ns raw, ncons := upd σ0.ncons x.ns 1,
                            start := upd σ0.start x.ns raw, dlv := upd σ0.dlv x.ns [], est := upd σ0.est x.ns true,
                            cl := upd σ0.cl x.ns [if x.outer = Outer.intoMultiFut then g else x.ng],
                            live := (if x.outer = Outer.intoMultiFut then σ0.live else σ0.live + 1), taintAdd := σ0.taintAdd || (σ0.pos s != raw) }
        (o, σ2.gotoF t (.f1 .addFree (.grp cur)) [.sc])
      else (o, σ1.gotoF t (.a2 σ0.cur) [.acq])
  | .isg =>
      (mkObs σ0 t .load (.ncons s) .rlx (res := σ0.ncons s),
       σ.goto t (.ret (if σ0.ncons s = 1 then .single else .notsingle)))
  ---------------------------------------------------------------- teardown
  | .tdb i =>
      let tg := σ0.tag i
      let o := mkObs σ0 t .load (.tag i) .rlx (res := encTag tg)
      if tg.isSome then (o, σ.goto t (.tdbd i))
      else if i + 1 < N then (o, σ.goto t (.tdb (i+1))) else (o, σ.goto t .tdr)
  | .tdbd i =>
      let σ1 := { σ with drops := σ0.drops ++ [(σ0.cont i).getD 0] }
      let o := mkObs σ0 t .tauDrop (.val i)
      if i + 1 < N then (o, σ1.goto t (.tdb (i+1))) else (o, σ1.goto t .tdr)
  | .tm1 c => (mkObs σ0 t .load .loc .rlx (res := c), σ.goto t (.tm2 c))
  | .tm2 c =>
      let o := mkObs σ0 t .load .head .rlx (res := σ0.head)
      if c = σ0.head then (o, σ.goto t .tdr) else (o, σ.goto t (.tm3 c))
  | .tm3 c => (mkObs σ0 t .load .loc .rlx (res := c), σ.goto t (.tmd c))
  | .tmd c =>
      (mkObs σ0 t .tauDrop (.val (c % N)), ({ σ with drops := σ0.drops ++ [(σ0.cont (c % N)).getD 0] }).goto t (.tm4 c))
  | .tm4 c => (mkObs σ0 t .store .loc .rlx (a := c + 1), σ.goto t (.tm1 (c + 1)))
  | .tdr => (mkObs σ0 t .load .readers .rlx (res := σ0.cur), σ.goto t .tdm)
  | .tdm =>
      (mkObs σ0 t .lock .mxwtf,
       ({ σ with freed := σ0.freed ++ σ0.wtf ++ σ0.tofree, wtf := [], tofree := [] }).goto t (.ret .dropped))
  ---------------------------------------------------------------- sink
  | .sy => (mkObs σ0 t .yield_ .anon, σ.goto t .s0)
  | .spl => (mkObs σ0 t .lock .pwait, σ.goto t .s0)
  ---------------------------------------------------------------- memory manager
  | .u1 k => (mkObs σ0 t .load .epoch .rlx (res := σ0.epoch), σ.goto t (.u2 k σ0.epoch))
  | .u2 k e =>
      let v := σ0.tokv h_.tok
      let o := mkObs σ0 t .load (.tok h_.tok) .rlx (res := v)
      if v = e then (o, mgrDone σ t k) else (o, σ.goto t (.u3 k e))
  | .u3 k e =>
      (mkObs σ0 t .store (.tok h_.tok) .rel (a := e), mgrDone { σ with tokv := upd σ0.tokv h_.tok e } t k)
  | .gt1 k => (mkObs σ0 t .lock .mxmgr, ({ σ with mgrOwner := some t }).goto t (.gt2 k))
  | .gt2 k =>
      -- the new token starts at the current epoch and is registered; the guard is dropped
      (mkObs σ0 t .load .epoch .acq (res := σ0.epoch),
       mgrDone { σ with tokv := upd σ0.tokv x.ng σ0.epoch, toks := σ0.toks ++ [x.ng], mgrOwner := none } t k)
  | .f1 k ob => (mkObs σ0 t .lock .mxwtf, ({ σ with wtfOwner := some t, wtf := σ0.wtf ++ [ob] }).goto t (.f2 k))
  | .f2 k =>
      let okk := σ0.mgrOwner.isNone
      let o := mkObs σ0 t .trylock .mxmgr (ok := okk)
      if okk then (o, ({ σ with mgrOwner := some t }).goto t (.f3 k)) else (o, freeTail σ t k)
  | .f3 k =>
      let o := mkObs σ0 t .load .epoch .sc (res := σ0.epoch)
      if σ0.toks.length = 0 then (o, freeTail { σ with mgrOwner := none } t k)
      else (o, σ.goto t (.f4 k σ0.epoch 0))
  | .f4 k e i =>
      let tk := σ0.toks.getD i 0
      let v := σ0.tokv tk
      let o := mkObs σ0 t .load (.tok tk) .acq (res := v)
      if v = e then
        if i + 1 < σ0.toks.length then (o, σ.goto t (.f4 k e (i + 1)))
        else
          -- every registered token has reached the epoch: the pending batch is released
          (o, ({ σ with freed := σ0.freed ++ σ0.tofree, tofree := [], iepoch := e }).goto t (.f5 k))
      else (o, freeTail { σ with mgrOwner := none } t k)
  | .f5 k =>
      let flags := (if σ0.noReader then 2 else 0) + (if σ0.sigE then 1 else 0)
      (mkObs σ0 t .fand .signal .rel (a := 18446744073709551614) (res := flags),
       freeTail { σ with sigE := false, mgrOwner := none } t k)
  | .f7 k =>
      let okk := σ0.mgrOwner.isNone
      let o := mkObs σ0 t .trylock .mxmgr (ok := okk)
      if okk then (o, ({ σ with mgrOwner := some t }).goto t (.f8 k)) else (o, freeEnd σ t k)
  | .f8 k =>
      let o := mkObs σ0 t .load .epoch .rlx (res := σ0.epoch)
      if σ0.iepoch = σ0.epoch then
        (o, ({ σ with tofree := σ0.wtf, wtf := [] }).goto t (.f9 k σ0.epoch))
      else (o, freeEnd { σ with mgrOwner := none } t k)
  | .f9 k cur => (mkObs σ0 t .store .epoch .rel (a := cur + 1), ({ σ with epoch := cur + 1 }).goto t (.f10 k))
  | .f10 k =>
      let flags := (if σ0.noReader then 2 else 0) + (if σ0.sigE then 1 else 0)
      (mkObs σ0 t .for_ .signal .rel (a := 1) (res := flags), freeEnd { σ with sigE := true, mgrOwner := none } t k)
  | .rt1 kk =>
      -- remove_token: lock, unregister, unlock (end of the block); then free(token)
      (mkObs σ0 t .lock .mxmgr,
       ({ σ with toks := σ0.toks.erase h_.tok }).goto t (.f1 (.rmTokFree kk) (.tokO h_.tok)))
where
  stepLa2 (σ0 σ : St) (t : Nat) (x : Th) (s : Nat) : Obs × St :=
    let p := σ0.pos s
    let o := mkObs σ0 t .load (.pos s) .rlx (res := p)
    let σ := σ.setTh t fun y => { y with single := (σ0.hs x.g).uni }
    match x.outer with
    | .tryRecvView | .recvView | .futTryRecvView | .futRecvView | .poll true => (o, σ.goto t (.v1 p))
    | _ => (o, σ.goto t (.r1 p (x.aux == 1)))
  startNotify2 (σ : St) (t : Nat) : St :=
    -- start_send: the second `waiter.notify()` after the one inside try_send
    σ.goto t (.nf false 2)

/-- does the call need a fresh stream id -/
def needStream (o : Outer) : Bool := o = Outer.addStream || o = Outer.intoMultiFut

/-- which calls a handle of a given kind offers -/
def kindOk (o : Outer) (h : Hd) : Bool :=
  match o with
  | .trySend | .startSend _ _ => h.sender
  | .tryRecv | .recv | .poll false => !h.sender
  | .tryRecvView | .recvView | .futTryRecvView | .futRecvView | .poll true => !h.sender && h.view
  | .clone => h.sender || !h.view
  | .addStream => !h.sender
  | .drop | .unsub => true
  | .intoSingle | .intoSingleFut => !h.sender && !h.view
  | .intoMulti | .intoMultiFut => !h.sender && h.view
  | .none => false

/-- a call needs a live handle nobody else is using (Rust ownership) and fresh ids for what it creates -/
def callOk (σ : St) (t : Nat) (o : Outer) (g ng ns : Nat) : Bool :=
  let h_ := σ.hs g
  decide ((σ.th t).pc = .idle) && h_.alive && !h_.busy && kindOk o h_ &&
  !((o = Outer.clone || o = Outer.addStream || o = Outer.intoSingleFut || o = Outer.intoMultiFut) && ((σ.hs ng).used || ng = g)) &&
  !(needStream o && σ.sused ns)

/-- reserve the stream id, mark the handle busy, record the call's arguments in the thread -/
def callPrep (σ : St) (t : Nat) (o : Outer) (g v ng ns : Nat) : St :=
  let σa := if needStream o then { σ with sused := upd σ.sused ns true } else σ
  let σb := σa.setHd g fun y => { y with busy := true }
  σb.setTh t fun y => { y with g := g, v := v, outer := o, ng := ng, ns := ns, s := (σb.hs g).stream, ff := [], pn := [] }

/-- jump to the first program point of the call -/
def callEntry (σ1 : St) (t : Nat) (o : Outer) (g ng ns : Nat) : St :=
  let σ := σ1
  let h_ := σ1.hs g
      match o with
      | .trySend => σ1.goto t .s0
      | .startSend _ _ =>
          match σ.wait with
          | .fut a b =>
              if 0 < a then (σ1.setTh t fun y => { y with outer := .startSend 0 0 }).goto t .s0
              else if 0 < b then (σ1.setTh t fun y => { y with outer := .startSend 1 0 }).goto t .sy
              else (σ1.setTh t fun y => { y with outer := .startSend 2 0 }).goto t .spl
          | _ => σ1.goto t .s0
      | .tryRecv | .recv | .tryRecvView | .recvView | .poll _ | .futTryRecvView | .futRecvView => σ1.goto t .r0
      | .clone =>
          if h_.sender then
            ((σ1.setHd g fun y => { y with uni := false }).setHd ng fun _ =>
              { sender := true, stream := 0, uni := false, fut := h_.fut, view := false, alive := false, used := true, tok := ng }).goto t (.gt1 .cloneS)
          else
            (σ1.setHd ng fun _ => { h_ with uni := false, alive := false, used := true, busy := false, tok := ng }).goto t .cr1
      | .addStream =>
          (σ1.setHd ng fun _ => { h_ with stream := ns, uni := true, alive := false, used := true, busy := false, tok := ng }).goto t .a1
      | .drop => if h_.sender then (σ1.setHd g fun y => { y with alive := false }).goto t .ds1
                 else (σ1.setHd g fun y => { y with alive := false }).goto t .dr1
      | .unsub => if h_.sender then (σ1.setHd g fun y => { y with alive := false }).goto t .ds1
                  else (σ1.setHd g fun y => { y with alive := false }).goto t .dr1
      | .intoSingle => σ1.goto t .isg
      | .intoSingleFut => (σ1.setHd ng fun y => { y with used := true }).goto t .cr1
      | .intoMultiFut => (σ1.setHd ng fun y => { y with used := true }).goto t .a1
      | .intoMulti => σ1.goto t (.ret .multi)
      | .none => σ

/-- the label-level step function -/
def step (σ : St) : Label → St
  | .call t o g v ng ns =>
      if callOk σ t o g ng ns then callEntry (callPrep σ t o g v ng ns) t o g ng ns else σ
  | .run t inp => (stepRun σ t inp).2
  | .retn t =>
      match (σ.th t).pc with
      | .ret _ =>
          let x := σ.th t
          let σ1 := ((σ.goto t .idle).flush t).setHd x.g fun y => { y with busy := false }
          match x.outer with
          | .clone | .addStream => σ1.setHd x.ng fun y => { y with alive := true }
          | .intoSingle | .intoSingleFut =>
              let σ2 := if x.outer = Outer.intoSingleFut then σ1.setHd x.g fun y => { y with tok := x.ng } else σ1
              if (σ.th t).pc = .ret .single then σ2.setHd x.g fun y => { y with view := true } else σ2
          | .intoMulti => σ1.setHd x.g fun y => { y with view := false }
          | .intoMultiFut => σ1.setHd x.g fun y => { y with view := false, stream := x.ns, uni := true, tok := x.ng }
          | _ => σ1
      | _ => σ
  | .arc t =>
      match (σ.th t).pc with
      | .arc r => arcStep σ t r
      | _ => σ
  | .wake t =>
      match (σ.th t).pc with
      | .wblk j seq =>
          if σ.cvWaiters.contains t || σ.wlockOwner.isSome then σ else σ.goto t (.c1 j seq .after)
      | _ => σ

def init (N : Nat) (bcast : Bool) (wait : WaitK) (fut : Bool) : St :=
  { N, bcast, wait,
    groups := upd (fun _ => []) 1 [0],
    ncons := upd (fun _ => 0) 0 1,
    hs := upd (upd (fun _ => {}) 0 { sender := true, alive := true, fut := fut, used := true, tok := 0 })
              1 { sender := false, alive := true, fut := fut, used := true, tok := 1 } }

end MQ
