/-!
# `Spec` — the sequential reference model of multiqueue2

One append-only log of value ids, one cursor per live stream, a window `N`, a sender count,
a handle table (role / stream / liveness per slot), the number of handles per stream, and the
no-receiver flag.  `step` is total: one public API call (as issued by the harness interpreter
`Ctx::exec`, handles = slot indexes) applied to a state gives the next state and the result the
real call must return.  `Result.toString` prints results in exactly the harness format.

The model also carries a payload ledger (`owned`: the value ids whose payload object currently
belongs to the queue; `births`/`clones`: how many payload objects were created by the caller /
by the queue; `dbl`: some payload was released twice or never — only reachable through two
streams on a move-out queue, finding F5).

Import-free on purpose: the compiled driver links without anything but core.
-/
namespace MQ.Spec

/-- What a handle is: sender, shared receiver, single-consumer ("uni") receiver.  Flavour
(broadcast / mpmc) and kind (plain / futures) are properties of the whole queue, so the twelve
handle types of the crate are `flavour × kind × Role`. -/
inductive Role
  | S | R | U
  deriving DecidableEq, Repr, Inhabited

structure Slot where
  role : Role
  strm : Nat
  gid : Nat
  live : Bool
  deriving Repr, Inhabited

structure State where
  /-- broadcast (values are cloned out) or mpmc (values are moved out) -/
  bcast : Bool
  /-- futures handles or plain handles -/
  fut : Bool
  /-- the window: requested capacity rounded up to a power of two, at least 1 -/
  N : Nat
  /-- every accepted value id, in acceptance order; append-only -/
  log : List Nat
  /-- position of every live stream (`none`: no such stream / stream removed) -/
  cur : Nat → Option Nat
  /-- number of live handles per stream -/
  cnt : Nat → Nat
  /-- number of live sender handles -/
  senders : Nat
  /-- set when the last stream is removed; never cleared -/
  noRecv : Bool
  /-- the handle table of the harness context: slot index ↦ handle -/
  slots : List Slot
  nextGid : Nat
  nextStrm : Nat
  nextVid : Nat
  /-- ledger: ids of the payload objects the queue owns right now -/
  owned : List Nat
  /-- ledger: position of the last stream when it was removed (mpmc teardown range) -/
  lastPos : Nat
  births : Nat
  clones : Nat
  dbl : Bool

/-- `get_valid_wrap`: 0 ↦ 1, otherwise the next power of two. -/
def pow2ge (n : Nat) : Nat := go n 1
where
  go : Nat → Nat → Nat
    | 0, p => p
    | f + 1, p => if n ≤ p then p else go f (2 * p)

def validWrap (cap : Nat) : Nat := if cap = 0 then 1 else pow2ge cap

/-- `create`: slot 0 = the sender (g0), slot 1 = the receiver (g1) on stream s0. -/
def init (bcast fut : Bool) (cap : Nat) : State :=
  { bcast := bcast, fut := fut, N := validWrap cap, log := [],
    cur := fun s => if s = 0 then some 0 else none,
    cnt := fun s => if s = 0 then 1 else 0,
    senders := 1, noRecv := false,
    slots := [⟨.S, 0, 0, true⟩, ⟨.R, 0, 1, true⟩],
    nextGid := 2, nextStrm := 1, nextVid := 1,
    owned := [], lastPos := 0, births := 0, clones := 0, dbl := false }

/-- The harness `Op` alphabet (composite ops are expanded by the driver). -/
inductive Call
  | trySend (h : Nat)
  | tryRecv (h : Nat)
  | recv (h : Nat)
  | tryRecvView (h : Nat)
  | recvView (h : Nat)
  | clone (h : Nat)
  | addStream (h : Nat)
  | drop (h : Nat)
  | unsub (h : Nat)
  | intoSingle (h : Nat)
  | intoMulti (h : Nat)
  | startSend (h : Nat)
  | pollComplete (h : Nat)
  | poll (h : Nat)
  deriving DecidableEq, Repr

inductive Result
  | okV (v : Nat) | fullV (v : Nat) | discV (v : Nat)
  | empty | disc
  | ready | readyV (v : Nat) | notreadyV (v : Nat) | errV (v : Nat)
  | notready | someV (v : Nat) | none
  | newH (g : Nat) | newHS (g s : Nat)
  | dropped | bool (b : Bool) | unit
  | single | notsingle | multi | multiS (s : Nat)
  | nohandle | badop
  /-- the real call would block for ever (nothing to receive, a sender is alive) -/
  | wouldblock
  deriving DecidableEq, Repr

/-- Exactly the strings `Ctx::exec` returns. -/
def Result.toString : Result → String
  | .okV v => s!"ok v{v}"
  | .fullV v => s!"full v{v}"
  | .discV v => s!"disc v{v}"
  | .empty => "empty"
  | .disc => "disc"
  | .ready => "ready"
  | .readyV v => s!"ready v{v}"
  | .notreadyV v => s!"notready v{v}"
  | .errV v => s!"err v{v}"
  | .notready => "notready"
  | .someV v => s!"some v{v}"
  | .none => "none"
  | .newH g => s!"new g{g}"
  | .newHS g s => s!"new g{g} s{s}"
  | .dropped => "dropped"
  | .bool b => if b then "true" else "false"
  | .unit => "unit"
  | .single => "single"
  | .notsingle => "notsingle"
  | .multi => "multi"
  | .multiS s => s!"multi s{s}"
  | .nohandle => "nohandle"
  | .badop => "badop"
  | .wouldblock => "wouldblock"

instance : ToString Result := ⟨Result.toString⟩

/-! ## helpers -/

def Slot.isRecvOn (x : Slot) (s : Nat) : Bool :=
  x.live && decide (x.role ≠ Role.S) && decide (x.strm = s)

def Slot.isSender (x : Slot) : Bool := x.live && decide (x.role = Role.S)

/-- number of live receiver handles on stream `s` -/
def countR (l : List Slot) (s : Nat) : Nat := l.countP (fun x => x.isRecvOn s)

/-- number of live sender handles -/
def countS (l : List Slot) : Nat := l.countP Slot.isSender

def getSlot (σ : State) (h : Nat) : Option Slot :=
  match σ.slots[h]? with
  | some x => if x.live then some x else Option.none
  | Option.none => Option.none

/-- every live stream is less than a window behind the head -/
def hasRoom (σ : State) : Bool :=
  (List.range σ.nextStrm).all fun s =>
    match σ.cur s with
    | some c => decide (σ.log.length - c < σ.N)
    | Option.none => true

def noStreams (cur : Nat → Option Nat) (n : Nat) : Bool :=
  (List.range n).all fun s => (cur s).isNone

inductive SendOut
  | ok | full | disc
  deriving DecidableEq, Repr

/-- The one place a value enters the log.  A fresh id is drawn for every attempt. -/
def send (σ : State) : State × SendOut × Nat :=
  let v := σ.nextVid
  let σ0 := { σ with nextVid := v + 1, births := σ.births + 1 }
  if σ.noRecv then (σ0, .disc, v)
  else if hasRoom σ then
    -- broadcast: the writer drops the value it overwrites
    let owned' := if σ.bcast && decide (σ.N ≤ σ.owned.length) then σ.owned.drop 1 ++ [v] else σ.owned ++ [v]
    ({ σ0 with log := σ.log ++ [v], owned := owned' }, .ok, v)
  else (σ0, .full, v)

/-- a call on a handle of the wrong type that had a payload made for it -/
def badSend (σ : State) : State :=
  { σ with nextVid := σ.nextVid + 1, births := σ.births + 1 }

inductive RecvOut
  | val (v : Nat) | empty | ended | nostream
  deriving DecidableEq, Repr

/-- The one place a cursor moves.  `cl`: this kind of call clones the value out of a
broadcast queue (the view calls do not). -/
def recvOn (σ : State) (sid : Nat) (cl : Bool) : State × RecvOut :=
  match σ.cur sid with
  | Option.none => (σ, .nostream)
  | some c =>
    match σ.log[c]? with
    | some v =>
      let cur' := fun s => if s = sid then some (c + 1) else σ.cur s
      if σ.bcast then
        ({ σ with cur := cur', clones := if cl then σ.clones + 1 else σ.clones }, .val v)
      else
        ({ σ with cur := cur', owned := σ.owned.erase v, dbl := σ.dbl || !(σ.owned.contains v) }, .val v)
    | Option.none => if σ.senders = 0 then (σ, .ended) else (σ, .empty)

def killSlot (l : List Slot) (h : Nat) (x : Slot) : List Slot := l.set h { x with live := false }

def dropSend (σ : State) (h : Nat) (x : Slot) : State :=
  { σ with slots := killSlot σ.slots h x, senders := σ.senders - 1 }

/-- A receiver handle goes away; the stream goes with its last handle, and the no-receiver
flag is raised with the last stream. -/
def dropRecv (σ : State) (h : Nat) (x : Slot) : State :=
  let sid := x.strm
  if σ.cnt sid ≤ 1 then
    let cur' := fun s => if s = sid then Option.none else σ.cur s
    let last := noStreams cur' σ.nextStrm
    { σ with slots := killSlot σ.slots h x, cur := cur',
             cnt := fun s => if s = sid then 0 else σ.cnt s,
             noRecv := σ.noRecv || last,
             lastPos := if last then (σ.cur sid).getD σ.lastPos else σ.lastPos }
  else
    { σ with slots := killSlot σ.slots h x,
             cnt := fun s => if s = sid then σ.cnt s - 1 else σ.cnt s }

def allDead (σ : State) : Bool := σ.slots.all fun x => !x.live

/-- Ledger only: when the last handle is gone the queue drops what it still owns.
Broadcast: every written slot.  Mpmc: the positions from the last stream's cursor to the head. -/
def teardown (σ : State) : State :=
  if allDead σ then
    if σ.bcast then { σ with owned := [] }
    else
      let rng := σ.log.drop σ.lastPos
      { σ with owned := σ.owned.filter (fun v => !rng.contains v),
               dbl := σ.dbl || rng.any (fun v => !σ.owned.contains v) }
  else σ

def addSlot (σ : State) (x : Slot) : State := { σ with slots := σ.slots ++ [x] }

/-- `add_stream` / `add_stream_with`: a new handle on a new stream at the parent's position. -/
def addStream (σ : State) (x : Slot) : State :=
  let sid := x.strm
  let new := σ.nextStrm
  { σ with slots := σ.slots ++ [{ role := x.role, strm := new, gid := σ.nextGid, live := true }],
           nextGid := σ.nextGid + 1, nextStrm := new + 1,
           cur := fun s => if s = new then σ.cur sid else σ.cur s,
           cnt := fun s => if s = new then 1 else σ.cnt s }

/-- futures `into_multi`: a new stream at the current position, then the old handle is dropped
(the slot keeps its handle id, the handle is now a shared receiver on the new stream). -/
def intoMultiFut (σ : State) (h : Nat) (x : Slot) : State :=
  let sid := x.strm
  let new := σ.nextStrm
  let slots' := σ.slots.set h { x with role := Role.R, strm := new }
  if σ.cnt sid ≤ 1 then
    { σ with slots := slots', nextStrm := new + 1,
             cur := fun s => if s = new then σ.cur sid else if s = sid then Option.none else σ.cur s,
             cnt := fun s => if s = new then 1 else if s = sid then 0 else σ.cnt s }
  else
    { σ with slots := slots', nextStrm := new + 1,
             cur := fun s => if s = new then σ.cur sid else σ.cur s,
             cnt := fun s => if s = new then 1 else if s = sid then σ.cnt s - 1 else σ.cnt s }

def setRole (σ : State) (h : Nat) (x : Slot) (r : Role) : State :=
  { σ with slots := σ.slots.set h { x with role := r } }

def sendResult : SendOut → Nat → Result
  | .ok, v => .okV v
  | .full, v => .fullV v
  | .disc, v => .discV v

def sinkResult : SendOut → Nat → Result
  | .ok, v => .readyV v
  | .full, v => .notreadyV v
  | .disc, v => .errV v

/-- `try_recv`, `try_recv_view` -/
def tryResult : RecvOut → Result
  | .val v => .okV v
  | .empty => .empty
  | .ended => .disc
  | .nostream => .nohandle

/-- `recv`, `recv_view` (defined only when a value or the end is available) -/
def blockResult : RecvOut → Result
  | .val v => .okV v
  | .empty => .wouldblock
  | .ended => .disc
  | .nostream => .nohandle

/-- `Stream::poll` -/
def pollResult : RecvOut → Result
  | .val v => .someV v
  | .empty => .notready
  | .ended => .none
  | .nostream => .nohandle

/-- does a direct receive on this handle clone the value (broadcast ledger)?  The futures
single-consumer receiver goes through its view function for every call. -/
def clonesOut (σ : State) (x : Slot) : Bool := !(σ.fut && decide (x.role = Role.U))

/-- One API call.  Total; `nohandle` for a dead / missing slot, `badop` for a call the handle
type does not have (as `Ctx::exec` reports them). -/
def step (σ : State) (c : Call) : State × Result :=
  match c with
  | .trySend h =>
    match getSlot σ h with
    | Option.none => (σ, .nohandle)
    | some x =>
      if x.role = Role.S then
        let r := send σ
        (r.1, sendResult r.2.1 r.2.2)
      else (badSend σ, .badop)
  | .startSend h =>
    match getSlot σ h with
    | Option.none => (σ, .nohandle)
    | some x =>
      if x.role = Role.S ∧ σ.fut = true then
        let r := send σ
        (r.1, sinkResult r.2.1 r.2.2)
      else (badSend σ, .badop)
  | .pollComplete h =>
    match getSlot σ h with
    | Option.none => (σ, .nohandle)
    | some x => if x.role = Role.S ∧ σ.fut = true then (σ, .ready) else (σ, .badop)
  | .tryRecv h =>
    match getSlot σ h with
    | Option.none => (σ, .nohandle)
    | some x =>
      if x.role = Role.S then (σ, .badop)
      else
        let r := recvOn σ x.strm (clonesOut σ x)
        (r.1, tryResult r.2)
  | .recv h =>
    match getSlot σ h with
    | Option.none => (σ, .nohandle)
    | some x =>
      if x.role = Role.S then (σ, .badop)
      else
        let r := recvOn σ x.strm (clonesOut σ x)
        (r.1, blockResult r.2)
  | .tryRecvView h =>
    match getSlot σ h with
    | Option.none => (σ, .nohandle)
    | some x =>
      if x.role = Role.U ∧ σ.fut = false then
        let r := recvOn σ x.strm false
        (r.1, tryResult r.2)
      else (σ, .badop)
  | .recvView h =>
    match getSlot σ h with
    | Option.none => (σ, .nohandle)
    | some x =>
      if x.role = Role.U ∧ σ.fut = false then
        let r := recvOn σ x.strm false
        (r.1, blockResult r.2)
      else (σ, .badop)
  | .poll h =>
    match getSlot σ h with
    | Option.none => (σ, .nohandle)
    | some x =>
      if x.role ≠ Role.S ∧ σ.fut = true then
        let r := recvOn σ x.strm (clonesOut σ x)
        (r.1, pollResult r.2)
      else (σ, .badop)
  | .clone h =>
    match getSlot σ h with
    | Option.none => (σ, .nohandle)
    | some x =>
      match x.role with
      | Role.S =>
        ({ σ with slots := σ.slots ++ [{ role := Role.S, strm := x.strm, gid := σ.nextGid, live := true }],
                  nextGid := σ.nextGid + 1, senders := σ.senders + 1 }, .newH σ.nextGid)
      | Role.R =>
        ({ σ with slots := σ.slots ++ [{ role := Role.R, strm := x.strm, gid := σ.nextGid, live := true }],
                  nextGid := σ.nextGid + 1,
                  cnt := fun s => if s = x.strm then σ.cnt s + 1 else σ.cnt s }, .newH σ.nextGid)
      | Role.U => ({ σ with nextGid := σ.nextGid + 1 }, .badop)
  | .addStream h =>
    match getSlot σ h with
    | Option.none => (σ, .nohandle)
    | some x =>
      if (x.role = Role.R ∧ σ.bcast = true) ∨ (x.role = Role.U ∧ σ.fut = true) then
        (addStream σ x, .newHS σ.nextGid σ.nextStrm)
      else ({ σ with nextGid := σ.nextGid + 1, nextStrm := σ.nextStrm + 1 }, .badop)
  | .drop h =>
    match getSlot σ h with
    | Option.none => (σ, .nohandle)
    | some x =>
      if x.role = Role.S then (teardown (dropSend σ h x), .dropped)
      else (teardown (dropRecv σ h x), .dropped)
  | .unsub h =>
    match getSlot σ h with
    | Option.none => (σ, .nohandle)
    | some x =>
      if x.role = Role.S then (teardown (dropSend σ h x), .unit)
      else if x.role = Role.U ∧ σ.bcast = true ∧ σ.fut = false then
        -- `BroadcastUniReceiver::unsubscribe` returns ()
        (teardown (dropRecv σ h x), .unit)
      else (teardown (dropRecv σ h x), .bool (decide (σ.cnt x.strm = 1)))
  | .intoSingle h =>
    match getSlot σ h with
    | Option.none => (σ, .nohandle)
    | some x =>
      if x.role = Role.R then
        if σ.cnt x.strm = 1 then (setRole σ h x Role.U, .single) else (σ, .notsingle)
      else (σ, .badop)
  | .intoMulti h =>
    match getSlot σ h with
    | Option.none => (σ, .nohandle)
    | some x =>
      if x.role = Role.U then
        if σ.fut then (intoMultiFut σ h x, .multiS σ.nextStrm)
        else (setRole σ h x Role.R, .multi)
      else (σ, .badop)

def run (σ : State) : List Call → State
  | [] => σ
  | c :: cs => run (step σ c).1 cs

/-- results of a whole sequence, in order -/
def results (σ : State) : List Call → List Result
  | [] => []
  | c :: cs => (step σ c).2 :: results (step σ c).1 cs

/-- What the harness can see of the ledger at any time: the ids of the payload objects that
are alive (every object handed to the caller is dropped by the harness at once, so these are
exactly the queue's), how many objects were born / cloned, and whether something went wrong. -/
def ledgerText (σ : State) : String :=
  let vs := " ".intercalate (σ.owned.map fun v => s!"v{v}")
  s!"live=[{vs}] births={σ.births} clones={σ.clones} bad={if σ.dbl then 1 else 0}"

end MQ.Spec
