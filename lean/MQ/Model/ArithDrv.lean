import MQ.Model.Core
/-!
# Nat-level meaning of the crate's index arithmetic, as the models use it
(`mqdrv arith` evaluates these on the lines the harness produced from the real functions).
All counts are below 2^62, the initial slot flag is `usize::MAX`.
-/
namespace MQ.Arith

def two63 : Nat := 9223372036854775808
def two64 : Nat := 18446744073709551616

/-- decode a slot word: tagged words (bit 63) are "never written" -/
def decTag (w : Nat) : Option Nat := if w ≥ two63 then none else some w

/-- `wait::check` -/
def check (seq tagw wc : Nat) : Bool := MQ.checkVal seq (decTag tagw) wc

/-- `Transaction::get`: (index, tag) -/
def txGet (loaded wrap : Nat) : Nat × Nat := (loaded % wrap, loaded)

/-- `Transaction::matches_previous(val)`: the full test `head - N == tail` as the model writes it -/
def matchPrev (loaded wrap val : Nat) : Bool := loaded == val + wrap

/-- `commit_direct(1)` -/
def commitDirect (loaded : Nat) : Nat := loaded + 1

/-- CAS commit against a word holding `actual` -/
def commit (loaded actual : Nat) : Bool × Nat := if actual = loaded then (true, loaded + 1) else (false, actual)

/-- `past(check, seq)`: (diff, too far) with diff reported as 0 when too far -/
def past (chk seq : Nat) : Nat × Bool := if seq > chk then (0, true) else (chk - seq, false)

def getPrev (start by_ : Nat) : Nat := start - by_

/-- `get_valid_wrap`: next power of two, minimum 1 -/
def validWrap (c : Nat) : Nat := Id.run do
  let mut n := 1
  for _ in [0:64] do
    if n < c then n := n * 2
  return n

def isTagged (w : Nat) : Bool := w ≥ two63

/-- signal word: bit 0 epoch, bit 1 no-reader -/
def signalOp (flags op : Nat) : Nat × Bool :=
  match op with
  | 1 => (flags ||| 1, flags &&& 1 != 0)
  | 2 => (flags &&& 2, flags &&& 1 != 0)
  | 3 => (flags ||| 2, flags &&& 2 != 0)
  | _ => (flags, false)

def b2n (b : Bool) : Nat := if b then 1 else 0

/-- evaluates one line `fn args | results`; returns none if equal, else the model's answer -/
def evalLine (line : String) : Option String :=
  match line.trimAscii.toString.splitOn " | " with
  | [lhs, rhs] =>
    let a := (lhs.splitOn " ")
    let args := (a.drop 1).map String.toNat!
    let mine : String :=
      match a.getD 0 "", args with
      | "check", [s, t, w] => toString (b2n (check s t w))
      | "txget", [l, w] => let r := txGet l w; s!"{r.1} {r.2}"
      | "commitdirect", [l, _] => toString (commitDirect l)
      | "matchprev", [l, w, v] => toString (b2n (matchPrev l w v))
      | "commit", [l, act, _] => let r := commit l act; s!"{b2n r.1} {r.2}"
      | "past", [c, s] => let r := past c s; s!"{r.1} {b2n r.2}"
      | "getprev", [s, b] => toString (getPrev s b)
      | "validwrap", [c] => toString (validWrap c)
      | "istagged", [w] => toString (b2n (isTagged w))
      | "signal", [f, o] =>
          let r := signalOp f o
          s!"{b2n (r.1 != 0)} {b2n (r.1 &&& 1 != 0)} {b2n (r.1 &&& 2 != 0)} {r.1} {b2n r.2}"
      | _, _ => "?"
    if mine == rhs.trimAscii.toString then none else some mine
  | _ => some "unparsed"

end MQ.Arith
