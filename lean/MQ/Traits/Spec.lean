/-
  MQ.Traits.Spec — what property C19 demands, as a Lean function over the finite matrix
  (12 public handle types × 4 payload classes × 2 closure classes), and the statement `C19_full`
  about the table regenerated from /repo (MQ.Gen.table).  Hand-written; it lives here (and not in
  MQ.Props.C19) only because the generated verdict file MQ/Gen/TraitsVerdict.lean must be able to
  state its theorem about `C19_full`, and MQ.Props.C19 imports that file.
-/
import MQ.Gen.Traits
namespace MQ
open Traits

/-- the 12 public handle types; `Handle.id` is the index in `Gen.table.adts` (tied by `C19_handles_tied`) -/
inductive Handle where
  | BroadcastSender | BroadcastReceiver | BroadcastUniReceiver
  | BroadcastFutSender | BroadcastFutReceiver | BroadcastFutUniReceiver
  | MPMCSender | MPMCReceiver | MPMCUniReceiver
  | MPMCFutSender | MPMCFutReceiver | MPMCFutUniReceiver
  deriving DecidableEq, Repr

namespace Handle
def all : List Handle :=
  [BroadcastSender, BroadcastReceiver, BroadcastUniReceiver, BroadcastFutSender, BroadcastFutReceiver,
   BroadcastFutUniReceiver, MPMCSender, MPMCReceiver, MPMCUniReceiver, MPMCFutSender, MPMCFutReceiver,
   MPMCFutUniReceiver]
def id : Handle → Nat
  | BroadcastSender => 0 | BroadcastReceiver => 1 | BroadcastUniReceiver => 2 | BroadcastFutSender => 3
  | BroadcastFutReceiver => 4 | BroadcastFutUniReceiver => 5 | MPMCSender => 6 | MPMCReceiver => 7
  | MPMCUniReceiver => 8 | MPMCFutSender => 9 | MPMCFutReceiver => 10 | MPMCFutUniReceiver => 11
def name : Handle → String
  | BroadcastSender => "BroadcastSender" | BroadcastReceiver => "BroadcastReceiver"
  | BroadcastUniReceiver => "BroadcastUniReceiver" | BroadcastFutSender => "BroadcastFutSender"
  | BroadcastFutReceiver => "BroadcastFutReceiver" | BroadcastFutUniReceiver => "BroadcastFutUniReceiver"
  | MPMCSender => "MPMCSender" | MPMCReceiver => "MPMCReceiver" | MPMCUniReceiver => "MPMCUniReceiver"
  | MPMCFutSender => "MPMCFutSender" | MPMCFutReceiver => "MPMCFutReceiver"
  | MPMCFutUniReceiver => "MPMCFutUniReceiver"
/-- broadcast handles hand out `&T` / clones of one stored value to several threads: payload must be Sync too -/
def broadcast : Handle → Bool
  | BroadcastSender | BroadcastReceiver | BroadcastUniReceiver
  | BroadcastFutSender | BroadcastFutReceiver | BroadcastFutUniReceiver => true
  | _ => false
/-- futures single-consumer receivers `X<R, F, T>` store a closure `F: FnMut(&T) -> R` -/
def futUni : Handle → Bool
  | BroadcastFutUniReceiver | MPMCFutUniReceiver => true
  | _ => false
/-- expected type parameters of the definition -/
def params (h : Handle) : List String := if h.futUni then ["R", "F", "T"] else ["T"]
end Handle

/-- payload classes; probe representatives: u64, Cell<u8>, a `*const u8` wrapper with `unsafe impl Sync`, Rc<u8> -/
inductive Payload where
  | both | sendOnly | syncOnly | neither
  deriving DecidableEq, Repr
def Payload.all : List Payload := [.both, .sendOnly, .syncOnly, .neither]
def Payload.send : Payload → Bool | .both | .sendOnly => true | _ => false
def Payload.sync : Payload → Bool | .both | .syncOnly => true | _ => false
def Payload.name : Payload → String
  | .both => "Both" | .sendOnly => "SendOnly" | .syncOnly => "SyncOnly" | .neither => "Neither"

/-- closure classes; probe representatives: `fn(&T) -> u64`, `Box<dyn FnMut(&T) -> u64>` -/
inductive Closure where
  | send | notSend
  deriving DecidableEq, Repr
def Closure.all : List Closure := [.send, .notSend]
def Closure.isSend : Closure → Bool | .send => true | .notSend => false
def Closure.name : Closure → String | .send => "Send" | .notSend => "NotSend"

/-- one entry of the matrix (the closure class only matters for the two `..FutUniReceiver<R, F, T>`) -/
structure Entry where
  handle : Handle
  payload : Payload
  closure : Closure
  deriving DecidableEq, Repr

namespace Entry
/-- type arguments of the instantiation: `<T>` or `<R = u64, F, T>` -/
def args (e : Entry) : List Ty :=
  let t := Ty.cls e.payload.send e.payload.sync
  if e.handle.futUni then [.std .scalar [], .cls e.closure.isSend e.closure.isSend, t] else [t]
def ty (e : Entry) : Ty := .adt e.handle.id e.args
/-- the instantiation respects the bounds declared on the struct (else the type does not exist in Rust,
    e.g. `BroadcastUniReceiver<Cell<u8>>`: the struct demands `T: Sync`) -/
def wf (e : Entry) : Bool := wellFormed Gen.table e.handle.id e.args
def isSend (e : Entry) : Bool := Traits.isSend Gen.table e.ty
def isSync (e : Entry) : Bool := Traits.isSync Gen.table e.ty
end Entry

/-- C19, the demanded table: `(Send?, Sync?)` of a handle instantiation -/
def C19_spec (e : Entry) : Bool × Bool :=
  (e.payload.send && (!e.handle.broadcast || e.payload.sync) && (!e.handle.futUni || e.closure.isSend), false)

namespace C19
def matrix : List Entry :=
  Handle.all.flatMap fun h => Payload.all.flatMap fun p => Closure.all.map fun c => ⟨h, p, c⟩

def holds (e : Entry) : Bool := e.isSend == (C19_spec e).1 && e.isSync == (C19_spec e).2

/-- the entries on which the current sources deviate from the specification -/
def failing : List Entry := matrix.filter fun e => e.wf && !holds e

/-- Known finding F14 (the only deviation the `_partial` theorem excludes): a handle that is `Send`
    although it must not be, because
    * `BroadcastFutSender` / `BroadcastFutReceiver` have no `unsafe impl` of their own and inherit
      `T: Send` from `FutInnerSend` / `FutInnerRecv` (no `Sync` demanded), and
    * `unsafe impl Send for FutInnerUniRecv` has no bounds at all (payload and closure unconstrained). -/
def knownF14 (e : Entry) : Bool :=
  match e.handle with
  | .BroadcastFutSender | .BroadcastFutReceiver => e.payload.send && !e.payload.sync
  | .BroadcastFutUniReceiver | .MPMCFutUniReceiver => !(C19_spec e).1
  | _ => false
end C19

/-- C19 over the complete finite table, for the sources as they are now -/
def C19_full : Prop := ∀ e ∈ C19.matrix, e.wf = true → C19.holds e = true

instance : Decidable C19_full := by unfold C19_full; infer_instance

/-! evaluation for the tie with rustc (`check C19` compares these lines with the probe's output) -/
private def b (x : Bool) : String := if x then "true" else "false"
def C19.dumpLine (e : Entry) : String :=
  "{\"handle\":\"" ++ e.handle.name ++ "\",\"payload\":\"" ++ e.payload.name ++ "\",\"closure\":\"" ++ e.closure.name ++
  "\",\"wf\":" ++ b e.wf ++ ",\"send\":" ++ b e.isSend ++ ",\"sync\":" ++ b e.isSync ++
  ",\"spec_send\":" ++ b (C19_spec e).1 ++ ",\"spec_sync\":" ++ b (C19_spec e).2 ++ ",\"known_f14\":" ++ b (C19.knownF14 e) ++ "}"
def C19.dump : List String := C19.matrix.map C19.dumpLine

end MQ
