/-
  MQ.Traits.Resolver — a small resolver for Rust's auto traits `Send` / `Sync` (property C19).

  Hand-written, no imports.  The data it runs on (`Table`) is regenerated from /repo's sources by
  tools/traits.py into MQ/Gen/Traits.lean; the booleans it computes are compared, entry by entry,
  with the ones rustc decides (probe crate) on every run of `check C19`.

  Rules implemented (those of the Rust reference, restricted to what the crate uses):
  * a type defined in the crate (`adt`) that has at least one explicit `unsafe impl Send` (resp. `Sync`)
    is Send (resp. Sync) iff the bounds of one of these impls hold for its arguments — an explicit impl
    switches the automatic derivation OFF for that type and that trait;
  * otherwise it is Send (resp. Sync) iff every field is (auto trait);
  * `Arc<X>`: both iff `X: Send + Sync`;  `Cell<X>`/`UnsafeCell`/`RefCell`: Send iff `X: Send`, never Sync;
    `Mutex<X>`: Send and Sync iff `X: Send`;  `*const X`/`*mut X`/`Rc<X>`: neither;  `PhantomData<X>`,
    `Box`, `Vec`, `VecDeque`, `Option`, arrays, tuples: like their contents;  `&X`: both iff `X: Sync`;
    `&mut X`: like `X`;  integers, bool, atomics (`AtomicPtr<X>` for every `X`), fn pointers: both;
    `dyn Trait + ..`: exactly the auto traits named in the object type or among the supertraits
    (`dyn Wait` is neither, because `trait Wait` has no supertraits);
  * bounds on traits other than Send/Sync (Clone, FnMut, QueueRW) are assumed to be satisfied by the
    instantiation (the probe only builds instantiations for which they are).
  Types are evaluated to a pair `(isSend, isSync)`; type parameters are looked up in an environment
  holding the pairs of the arguments, so no substitution is needed.  Recursion is on fuel; running
  out of fuel answers `(false, false)` (the translator rejects recursive type definitions).
-/
namespace MQ.Traits

/-- constructors from std / dependencies, grouped by their auto-trait rule -/
inductive StdK where
  | scalar   -- usize, isize, u8, bool, Ordering, Task, Condvar, ...: Send + Sync
  | atomic   -- AtomicUsize, AtomicPtr<_>, ...: Send + Sync whatever the argument
  | arc      -- Arc<X>
  | cell     -- Cell<X>, UnsafeCell<X>, RefCell<X>
  | mutex    -- Mutex<X> (std and parking_lot)
  | phantom  -- PhantomData<X>
  | own      -- Box, Vec, VecDeque, Option, [X; N], [X], (A, B, ..): structural
  | rc       -- Rc<X>
  deriving DecidableEq, Repr

/-- type expressions -/
inductive Ty where
  | param (i : Nat)                 -- i-th type parameter of the enclosing definition
  | cls (send sync : Bool)          -- an opaque type of a given class (payload, closure)
  | adt (id : Nat) (args : List Ty) -- struct / enum of the crate: index into `Table.adts`, type arguments
  | std (k : StdK) (args : List Ty)
  | rawPtr (t : Ty)                 -- *const T, *mut T
  | ref (t : Ty)                    -- &T
  | refMut (t : Ty)                 -- &mut T
  | dyn (send sync : Bool)          -- dyn Trait (+ Send) (+ Sync), supertraits included
  | fnPtr                           -- fn(..) -> .., unsafe fn(..), extern fn(..)
  deriving Repr

/-- `param: Send` and/or `param: Sync`, `param` a position in the type-parameter list -/
structure Bound where
  param : Nat
  send : Bool
  sync : Bool
  deriving DecidableEq, Repr

structure Adt where
  name : String
  params : List String
  /-- auto-trait bounds declared on the definition itself (well-formedness of an instantiation) -/
  bounds : List Bound
  fields : List (String × Ty)
  deriving Repr

/-- `unsafe impl<..> Send/Sync for adt<P0, .., Pn>`; bounds refer to positions in the adt's parameter list -/
structure Impl where
  sync : Bool   -- false: impl of Send, true: impl of Sync
  adt : Nat
  bounds : List Bound
  deriving DecidableEq, Repr

structure Table where
  adts : List Adt
  impls : List Impl
  deriving Repr

abbrev SS := Bool × Bool   -- (isSend, isSync)

def SS.and (a b : SS) : SS := (a.1 && b.1, a.2 && b.2)

def boundHolds (args : List SS) (b : Bound) : Bool :=
  let v := args.getD b.param (false, false)
  (!b.send || v.1) && (!b.sync || v.2)

/-- explicit impls of one trait for one adt: `none` if there is none (→ automatic derivation),
    else whether one of them applies -/
def viaImpl (tb : Table) (id : Nat) (sync : Bool) (args : List SS) : Option Bool :=
  match tb.impls.filter (fun i => i.adt == id && i.sync == sync) with
  | [] => none
  | is => some (is.any (fun i => i.bounds.all (boundHolds args)))

def stdRule (k : StdK) (args : List SS) : SS :=
  let all := args.foldl SS.and (true, true)
  match k with
  | .scalar | .atomic => (true, true)
  | .arc => (all.1 && all.2, all.1 && all.2)
  | .cell => (all.1, false)
  | .mutex => (all.1, all.1)
  | .phantom | .own => all
  | .rc => (false, false)

def eval (tb : Table) : Nat → List SS → Ty → SS
  | 0, _, _ => (false, false)
  | _ + 1, env, .param i => env.getD i (false, false)
  | _ + 1, _, .cls s y => (s, y)
  | n + 1, env, .adt id args =>
    let a := args.map (eval tb n env)
    match tb.adts[id]? with
    | none => (false, false)
    | some d =>
      let auto := d.fields.foldl (fun acc f => SS.and acc (eval tb n a f.2)) (true, true)
      ((viaImpl tb id false a).getD auto.1, (viaImpl tb id true a).getD auto.2)
  | n + 1, env, .std k args => stdRule k (args.map (eval tb n env))
  | _ + 1, _, .rawPtr _ => (false, false)
  | n + 1, env, .ref t => let v := eval tb n env t; (v.2, v.2)
  | n + 1, env, .refMut t => eval tb n env t
  | _ + 1, _, .dyn s y => (s, y)
  | _ + 1, _, .fnPtr => (true, true)

def fuel : Nat := 64

def isSend (tb : Table) (t : Ty) : Bool := (eval tb fuel [] t).1
def isSync (tb : Table) (t : Ty) : Bool := (eval tb fuel [] t).2

/-- an instantiation `adt id args` respects the bounds declared on the definition -/
def wellFormed (tb : Table) (id : Nat) (args : List Ty) : Bool :=
  match tb.adts[id]? with
  | none => false
  | some d => d.bounds.all (boundHolds (args.map (eval tb fuel [])))

/-! closedness of a table: every index is in range (checked by `decide` in MQ.Props.C19) -/
def tyClosed (nAdts : Nat) : Nat → Nat → Ty → Bool
  | 0, _, _ => false
  | _ + 1, np, .param i => i < np
  | n + 1, np, .adt id args => id < nAdts && args.all (tyClosed nAdts n np)
  | n + 1, np, .std _ args => args.all (tyClosed nAdts n np)
  | n + 1, np, .rawPtr t | n + 1, np, .ref t | n + 1, np, .refMut t => tyClosed nAdts n np t
  | _ + 1, _, _ => true

def Table.closed (tb : Table) : Bool :=
  tb.adts.all (fun d =>
    d.fields.all (fun f => tyClosed tb.adts.length fuel d.params.length f.2) &&
    d.bounds.all (fun b => b.param < d.params.length)) &&
  tb.impls.all (fun i => match tb.adts[i.adt]? with
    | none => false
    | some d => i.bounds.all (fun b => b.param < d.params.length))

end MQ.Traits
