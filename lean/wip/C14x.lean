import MQ.Inv.WakeMain
namespace MQ

/-- C14 (senders are woken before a futures receiver waits — F7, F17): when an attempt of the blocking `recv` or of
the shared-stream `poll` of a futures receiver ends with `Empty`, the next thing the thread does is `notify_all` on
the senders' list (`nf true 12`); only then does it examine the slot to wait on (`w0`). The failed attempt may have
pinned and released a slot that a sender found pinned. -/
theorem C14_empty_attempt_wakes_senders_first (σ : St) (t j : Nat) (hf : (σ.hs (σ.th t).g).fut = true)
    (ho : (σ.th t).outer = .recv ∨ (σ.th t).outer = .poll false) :
    ((recvDone σ t .empty j).th t).pc = .nf true 12 := by
  rcases ho with ho | ho <;> simp [recvDone, ho, hf, St.goto, St.setTh, upd]

/-- … and the notification step really drains the senders' list and hands every task on it to the notifier -/
theorem C14_notify_drains_senders (σ : St) (t inp k : Nat) (hpc : (σ.th t).pc = .nf true k) :
    (stepRun σ t inp).2.pwaitL = [] := by
  simp only [stepRun, hpc, if_true]
  split
  all_goals first
    | rfl
    | (simp [stepRun.startNotify2, St.goto, St.setTh, teardownStart]; done)
    | (unfold afterNotify; split <;> simp [St.goto, St.setTh]; done)

end MQ
