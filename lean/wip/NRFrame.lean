import MQ.Inv.DiscMain
/-! # NoReaderInv — frame: the no-reader flag -/
set_option linter.unusedSimpArgs false
namespace MQ

structure NRD where
  noReader : Bool

def St.nrd (σ : St) : NRD := { noReader := σ.noReader }

@[simp] theorem nrd_setTh (σ : St) (t f) : (σ.setTh t f).nrd = σ.nrd := rfl
@[simp] theorem nrd_goto (σ : St) (t pc) : (σ.goto t pc).nrd = σ.nrd := rfl
@[simp] theorem nrd_gotoF (σ : St) (t pc f) : (σ.gotoF t pc f).nrd = σ.nrd := rfl
@[simp] theorem nrd_setHd (σ : St) (g f) : (σ.setHd g f).nrd = σ.nrd := rfl
@[simp] theorem nrd_flush (σ : St) (t) : (σ.flush t).nrd = σ.nrd := rfl

section helpers
variable (σ : St) (t : Nat)
@[simp] theorem afterNotify_nrd (k : Nat) : (afterNotify σ t k).nrd = σ.nrd := by
  unfold afterNotify; split <;> rfl
@[simp] theorem teardownStart_nrd (r : Res) : (teardownStart σ t r).nrd = σ.nrd := rfl
@[simp] theorem arcStep_nrd (r : Res) : (arcStep σ t r).nrd = σ.nrd := by
  unfold arcStep; simp only []; repeat' split
  all_goals rfl
@[simp] theorem startNotify_nrd (k : Nat) : (startNotify σ t k).nrd = σ.nrd := by
  unfold startNotify; split <;> first | rfl | exact afterNotify_nrd σ t k
@[simp] theorem sendDone_nrd (r : Res) : (sendDone σ t r).nrd = σ.nrd := by
  unfold sendDone; simp only []; repeat' split
  all_goals first | exact startNotify_nrd σ t _ | rfl
@[simp] theorem startWait_nrd (j seq : Nat) : (startWait σ t j seq).nrd = σ.nrd := by
  unfold startWait; simp only []; repeat' split
  all_goals rfl
@[simp] theorem recvDone_nrd (r : Res) (j : Nat) : (recvDone σ t r j).nrd = σ.nrd := by
  unfold recvDone; simp only []; repeat' split
  all_goals rfl
@[simp] theorem waitDone_nrd : (waitDone σ t).nrd = σ.nrd := by
  unfold waitDone; simp only []; repeat' split
  all_goals rfl
@[simp] theorem checkDone_nrd (j seq : Nat) (ph : WPh) (b : Bool) : (checkDone σ t j seq ph b).nrd = σ.nrd := by
  unfold checkDone; repeat' split
  all_goals first | rfl | exact waitDone_nrd _ t
@[simp] theorem recvDropTail_nrd : (recvDropTail σ t).nrd = σ.nrd := by
  unfold recvDropTail; simp only []; repeat' split
  all_goals rfl
@[simp] theorem sendDropTail_nrd : (sendDropTail σ t).nrd = σ.nrd := by
  unfold sendDropTail; repeat' split
  all_goals rfl
@[simp] theorem mgrDone_nrd (k : MK) : (mgrDone σ t k).nrd = σ.nrd := by
  unfold mgrDone; simp only []; repeat' split
  all_goals first | rfl | exact sendDone_nrd σ t _ | (simp only [recvDropTail_nrd, sendDropTail_nrd]; done) | (simp only [recvDropTail_nrd, sendDropTail_nrd]; rfl)
@[simp] theorem freeEnd_nrd (k : MK) : (freeEnd σ t k).nrd = σ.nrd := by
  unfold freeEnd; (simp only [mgrDone_nrd]; try rfl)
@[simp] theorem freeTail_nrd (k : MK) : (freeTail σ t k).nrd = σ.nrd := by
  unfold freeTail; repeat' split
  all_goals first | rfl | (simp only [mgrDone_nrd]; try rfl)
@[simp] theorem startNotify2_nrd : (stepRun.startNotify2 σ t).nrd = σ.nrd := rfl
end helpers

@[simp] theorem stepLa2_nrd (σ0 σ : St) (t : Nat) (x : Th) (s : Nat) : (stepRun.stepLa2 σ0 σ t x s).2.nrd = σ.nrd := by
  unfold stepRun.stepLa2; simp only []; repeat' split
  all_goals rfl

/-- the only step that raises the no-reader flag -/
def PC.nrSrc : PC → Bool
  | .rr5 => true
  | _ => false

set_option maxHeartbeats 2000000 in
theorem stepRun_nrd_same (σ : St) (t inp : Nat) (h : (σ.th t).pc.nrSrc = false) :
    (stepRun σ t inp).2.nrd = σ.nrd := by
  unfold stepRun
  simp only []
  split
  all_goals (first | (rename_i heq; rw [heq] at h; simp [PC.nrSrc] at h; done) | skip)
  all_goals (repeat' split)
  all_goals first
    | (simp only [sendDone_nrd, recvDone_nrd, afterNotify_nrd, startNotify_nrd, teardownStart_nrd,
        startWait_nrd, waitDone_nrd, checkDone_nrd, stepLa2_nrd, startNotify2_nrd, mgrDone_nrd, freeTail_nrd,
        freeEnd_nrd, recvDropTail_nrd, sendDropTail_nrd,
        nrd_setTh, nrd_goto, nrd_gotoF, nrd_setHd, nrd_flush]; done)
    | (simp only [sendDone_nrd, recvDone_nrd, afterNotify_nrd, startNotify_nrd, teardownStart_nrd,
        startWait_nrd, waitDone_nrd, checkDone_nrd, stepLa2_nrd, startNotify2_nrd, mgrDone_nrd, freeTail_nrd,
        freeEnd_nrd, recvDropTail_nrd, sendDropTail_nrd,
        nrd_setTh, nrd_goto, nrd_gotoF, nrd_setHd, nrd_flush] <;> rfl)
    | rfl


end MQ
