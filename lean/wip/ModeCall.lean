import MQ.Inv.ModeLab
/-! # ModeInv — the `call` label -/
set_option linter.unusedSimpArgs false
set_option linter.unusedVariables false
set_option maxHeartbeats 8000000
namespace MQ

/-- the outer calls that create a handle -/
def Outer.mk (o : Outer) : Prop := o = .clone ∨ o = .addStream

theorem minv_call {σ : St} (t : Nat) (o : Outer) (g v ng ns : Nat) (M : MInv σ) (R : RegInv σ)
    (hfc : o.futConv = false) : MInv (step σ (.call t o g v ng ns)) := by
  by_cases hc : callOk σ t o g ng ns = true
  swap
  · have : step σ (.call t o g v ng ns) = σ := by simp only [step, hc]; rfl
    rw [this]; exact M
  have e : step σ (.call t o g v ng ns) = callEntry (callPrep σ t o g v ng ns) t o g ng ns := by
    simp only [step, hc, if_true]
  simp only [callOk, Bool.and_eq_true, decide_eq_true_eq, Bool.not_eq_true', Bool.and_eq_false_iff] at hc
  obtain ⟨⟨⟨⟨⟨hidle, halive⟩, hnbusy⟩, hkind⟩, hfresh⟩, hstream⟩ := hc
  have hused := M.aliveUsed g halive
  have hS := M.idleS g halive hnbusy
  have hR := M.idleR g halive hnbusy
  have hfresh' : o.mk → (σ.hs ng).used = false ∧ ng ≠ g := by
    intro h; rcases h with h | h <;> subst h <;> simpa using hfresh
  have hnil : o = .addStream → σ.cl ns = [] := by
    intro h; subst h
    have hsu : σ.sused ns = false := by simpa [needStream] using hstream
    apply Classical.byContradiction; intro hne
    have h1 := M.clReg ns hne
    have h2 := R.estsub _ (R.regest _ (by simpa [reg, St.ring] using h1))
    rw [hsu] at h2; cases h2
  trace_state
  sorry

end MQ
