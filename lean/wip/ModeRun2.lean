import MQ.Inv.ModeRun
/-! # ModeInv — the steps that change the handle table -/
set_option linter.unusedSimpArgs false
set_option linter.unusedVariables false
set_option maxHeartbeats 4000000
namespace MQ

/-- a handle under construction is not busy, not alive, but handed out -/
theorem creating_facts {σ : St} {y : Th} (L : TLoc σ y) (h : y.creating) :
    (σ.hs y.ng).busy = false ∧ (σ.hs y.ng).alive = false ∧ (σ.hs y.ng).used = true := by
  rcases h with h | h | h | ⟨h, h2⟩
  · obtain ⟨_, _, _, ⟨_, a, b, c, _⟩, _⟩ := L.cs h; exact ⟨c, a, b⟩
  · obtain ⟨_, _, _, ⟨_, a, b, c, _⟩, _, _⟩ := L.cr h; exact ⟨c, a, b⟩
  · obtain ⟨_, _, _, ⟨_, a, b, c, _⟩, _⟩ := L.add h; exact ⟨c, a, b⟩
  · obtain ⟨a, b, c, _, _⟩ := L.aft h h2; exact ⟨c, a, b⟩

/-- the handles another thread relies on are neither the stepping thread's handle -/
theorem other_handles {σ : St} (M : MInv σ) {x u : Nat} (hux : u ≠ x) (hxi : (σ.th x).pc ≠ .idle) :
    ((σ.th u).pc ≠ .idle → (σ.th u).g ≠ (σ.th x).g) ∧ ((σ.th u).creating → (σ.th u).ng ≠ (σ.th x).g) := by
  refine ⟨fun hu => M.excl u x hux hu hxi, fun hc e => ?_⟩
  have := (creating_facts (M.thr u) hc).1
  rw [e, ((M.thr x).busy hxi).1] at this; cases this

/-- facts of another thread across a step of `x` that changes the table only at `x`'s handle, adds handles to
the counted lists, or removes `x`'s handle from them -/
theorem thr_other {σ σ' : St} (M : MInv σ) {x u : Nat} (hux : u ≠ x) (hxi : (σ.th x).pc ≠ .idle)
    (hhs : ∀ a, a ≠ (σ.th x).g → σ'.hs a = σ.hs a)
    (hsl : ∀ a, a ≠ (σ.th x).g → a ∈ σ.sl → a ∈ σ'.sl)
    (hcl : ∀ a s, a ≠ (σ.th x).g → a ∈ σ.cl s → a ∈ σ'.cl s)
    (hnil : (σ.th u).pc ≠ .idle → ∀ s, (s = (σ.th u).s ∨ s = (σ.th u).ns) → σ.cl s = [] → σ'.cl s = [])
    (hest : σ.est (σ.th u).s = true → σ'.est (σ.th u).s = true)
    (hsing : (σ.th u).pc ≠ .idle → σ.cl (σ.th u).s = [(σ.th u).g] → σ'.cl (σ.th u).s = [(σ.th u).g]) :
    TLoc σ' (σ.th u) := by
  obtain ⟨o1, o2⟩ := other_handles M hux hxi
  exact TLoc_transfer (M.thr u) (fun h => hhs _ (o1 h)) (fun h => hhs _ (o2 h)) (fun h => hsl _ (o1 h))
    (fun h => hsl _ (o2 h)) (fun h s => hcl _ s (o1 h)) (fun h s => hcl _ s (o2 h)) hnil hest hsing

/-- the stepping thread's own facts at `m1` (writer count load; sole writer switches to the single-writer path) -/
theorem tloc_m1 (σ : St) (x inp : Nat) (L : TLoc σ (σ.th x)) (hpc : (σ.th x).pc = .m1) :
    TLoc (stepRun σ x inp).2 ((stepRun σ x inp).2.th x) := by
  obtain ⟨l1, l2, l3, l4, l5, l6, l7, l8, l9, l10, l11, l12, l13, l14, l15, l16, l17, l18, l19, l20, l21⟩ := L
  rw [hpc] at l1 l2 l3 l4 l5 l6 l7 l8 l9 l10 l11 l12 l13 l14 l15 l16 l17 l18 l19 l20 l21
  simp only [stepRun, hpc]
  split
  all_goals
    refine ⟨?_, ?_, ?_, ?_, ?_, ?_, ?_, ?_, ?_, ?_, ?_, ?_, ?_, ?_, ?_, ?_, ?_, ?_, ?_, ?_, ?_⟩
  all_goals (simp_all [St.goto, St.gotoF, St.flush, St.setTh, St.setHd, upd,
      PC.sendOp, PC.singleSendX, PC.singleSend, PC.recvOp, PC.recvActive, PC.viewPC, PC.cloneS, PC.remPC, PC.afterNew,
      PC.addPC, PC.kOK, Outer.futConv, Outer.viewCall]; done)

theorem tloc_la1 (σ : St) (x inp : Nat) (L : TLoc σ (σ.th x)) (hpc : (σ.th x).pc = .la1) :
    TLoc (stepRun σ x inp).2 ((stepRun σ x inp).2.th x) := by
  obtain ⟨l1, l2, l3, l4, l5, l6, l7, l8, l9, l10, l11, l12, l13, l14, l15, l16, l17, l18, l19, l20, l21⟩ := L
  rw [hpc] at l1 l2 l3 l4 l5 l6 l7 l8 l9 l10 l11 l12 l13 l14 l15 l16 l17 l18 l19 l20 l21
  simp only [stepRun, hpc, stepRun.stepLa2]
  repeat' split
  all_goals
    refine ⟨?_, ?_, ?_, ?_, ?_, ?_, ?_, ?_, ?_, ?_, ?_, ?_, ?_, ?_, ?_, ?_, ?_, ?_, ?_, ?_, ?_⟩
  all_goals (simp_all [St.goto, St.gotoF, St.flush, St.setTh, St.setHd, upd,
      PC.sendOp, PC.singleSendX, PC.singleSend, PC.recvOp, PC.recvActive, PC.viewPC, PC.cloneS, PC.remPC, PC.afterNew,
      PC.addPC, PC.kOK, Outer.futConv, Outer.viewCall]; done)

/-- what an `m1` / `la1` step does to the table: at most `uni := true` on the thread's own handle -/
theorem uni_step_facts (σ : St) (x inp : Nat) (h : (σ.th x).pc = .m1 ∨ (σ.th x).pc = .la1) :
    (stepRun σ x inp).2.writers = σ.writers ∧ (stepRun σ x inp).2.ncons = σ.ncons ∧ (stepRun σ x inp).2.sl = σ.sl ∧
    (stepRun σ x inp).2.cl = σ.cl ∧ (stepRun σ x inp).2.ring = σ.ring ∧
    (∀ a, a ≠ (σ.th x).g → (stepRun σ x inp).2.hs a = σ.hs a) ∧
    ((stepRun σ x inp).2.hs (σ.th x).g = σ.hs (σ.th x).g ∨
     ((stepRun σ x inp).2.hs (σ.th x).g = { σ.hs (σ.th x).g with uni := true } ∧
      (((σ.th x).pc = .m1 ∧ σ.writers = 1) ∨ ((σ.th x).pc = .la1 ∧ σ.ncons (σ.th x).s = 1)))) := by
  rcases h with hpc | hpc
  · simp only [stepRun, hpc]; split
    · rename_i hw
      refine ⟨rfl, rfl, rfl, rfl, rfl, ?_, Or.inr ⟨?_, Or.inl ⟨hpc, hw⟩⟩⟩
      · intro a ha; simp [St.gotoF, St.setHd, St.setTh, St.flush, upd, ha]
      · simp [St.gotoF, St.setHd, St.setTh, St.flush, upd]
    · exact ⟨rfl, rfl, rfl, rfl, rfl, fun a _ => rfl, Or.inl rfl⟩
  · simp only [stepRun, hpc]; split
    · have := stepLa2_htab σ (σ.flush x) x (σ.th x) (σ.th x).s
      obtain ⟨d1, d2, d3, d4, d5⟩ := htab_fields this
      refine ⟨d1, d2, d3, d4, stepLa2_ring _ _ _ _ _, fun a _ => by rw [d5]; rfl, Or.inl (by rw [d5]; rfl)⟩
    · split
      · rename_i hw
        refine ⟨rfl, rfl, rfl, rfl, rfl, ?_, Or.inr ⟨?_, Or.inr ⟨hpc, hw⟩⟩⟩
        · intro a ha; simp [St.gotoF, St.setHd, St.setTh, St.flush, upd, ha]
        · simp [St.gotoF, St.setHd, St.setTh, St.flush, upd]
      · exact ⟨rfl, rfl, rfl, rfl, rfl, fun a _ => rfl, Or.inl rfl⟩

theorem minv_run_uni {σ : St} (x inp : Nat) (M : MInv σ) (h : (σ.th x).pc = .m1 ∨ (σ.th x).pc = .la1) :
    MInv (stepRun σ x inp).2 := by
  obtain ⟨e1, e2, e3, e4, e5, e6, e7⟩ := uni_step_facts σ x inp h
  have hxi : (σ.th x).pc ≠ .idle := by rcases h with h | h <;> (rw [h]; simp)
  have Lx : TLoc (stepRun σ x inp).2 ((stepRun σ x inp).2.th x) := by
    rcases h with h | h
    · exact tloc_m1 σ x inp (M.thr x) h
    · exact tloc_la1 σ x inp (M.thr x) h
  have hest : (stepRun σ x inp).2.est = σ.est := by have := congrArg Ring.est e5; simpa [St.ring] using this
  -- the fields of the own handle other than `uni`
  have hsame : ∀ a, ((stepRun σ x inp).2.hs a).sender = (σ.hs a).sender ∧ ((stepRun σ x inp).2.hs a).alive = (σ.hs a).alive ∧
      ((stepRun σ x inp).2.hs a).busy = (σ.hs a).busy ∧ ((stepRun σ x inp).2.hs a).used = (σ.hs a).used ∧
      ((stepRun σ x inp).2.hs a).view = (σ.hs a).view ∧ ((stepRun σ x inp).2.hs a).stream = (σ.hs a).stream ∧
      (((stepRun σ x inp).2.hs a).uni = true → (σ.hs a).uni = true ∨ a = (σ.th x).g) := by
    intro a
    by_cases ha : a = (σ.th x).g
    · subst ha
      rcases e7 with e | ⟨e, _⟩ <;> rw [e] <;> simp
    · rw [e6 a ha]; simp
  have gsl : (σ.th x).pc = .m1 → (σ.th x).g ∈ σ.sl ∧ (σ.hs (σ.th x).g).sender = true := fun hp => (M.thr x).snd (by rw [hp]; rfl)
  have gcl : (σ.th x).pc = .la1 → (σ.th x).g ∈ σ.cl (σ.th x).s ∧ (σ.hs (σ.th x).g).sender = false :=
    fun hp => (M.thr x).rcv (by rw [hp]; rfl)
  refine ⟨by rw [e1, e3]; exact M.wr, by intro s; rw [e2, e4]; exact M.nc s, ?_, ?_, ?_, ?_, ?_, ?_, ?_, ?_, ?_, ?_, ?_⟩
  · intro u; rw [mth]; split
    · exact Lx
    · rename_i hu
      exact thr_other M hu hxi e6 (fun a _ ha => by rw [e3]; exact ha) (fun a s _ ha => by rw [e4]; exact ha)
        (fun _ s _ hs => by rw [e4]; exact hs) (by rw [hest]; exact id) (fun _ hs => by rw [e4]; exact hs)
  · intro t u htu ht hu
    have gt : ((stepRun σ x inp).2.th t).g = (σ.th t).g := by
      rw [mth]; split
      · rename_i e; subst e; exact stepRun_g σ t inp
      · rfl
    have gu : ((stepRun σ x inp).2.th u).g = (σ.th u).g := by
      rw [mth]; split
      · rename_i e; subst e; exact stepRun_g σ u inp
      · rfl
    have it : (σ.th t).pc ≠ .idle := by
      rw [mth] at ht; split at ht
      · rename_i e; subst e; exact hxi
      · exact ht
    have iu : (σ.th u).pc ≠ .idle := by
      rw [mth] at hu; split at hu
      · rename_i e; subst e; exact hxi
      · exact hu
    rw [gt, gu]; exact M.excl t u htu it iu
  · -- uniS
    intro g hg hu
    rw [e3] at hg ⊢
    rcases (hsame g).2.2.2.2.2.2 hu with h1 | h1
    · exact M.uniS g hg h1
    · subst h1
      rcases e7 with e | ⟨e, hc⟩
      · rw [e] at hu; exact M.uniS _ hg hu
      · rcases hc with ⟨hp, hw⟩ | ⟨hp, _⟩
        · -- sole writer
          have hl : σ.sl.length = 1 := by rw [← M.wr]; exact hw
          match hsl : σ.sl, hl with
          | [a], _ => rw [hsl] at hg; simp at hg; rw [hg]
        · -- a receiver handle is not in `sl`
          have := (M.slKind _ hg).1; rw [(gcl hp).2] at this; cases this
  · -- uniR
    intro g s hg hu
    rw [e4] at hg ⊢
    have hv : ((stepRun σ x inp).2.hs g).view = (σ.hs g).view := (hsame g).2.2.2.2.1
    rcases hu with hu | hu
    · rcases (hsame g).2.2.2.2.2.2 hu with h1 | h1
      · exact M.uniR g s hg (Or.inl h1)
      · subst h1
        rcases e7 with e | ⟨e, hc⟩
        · rw [e] at hu; exact M.uniR _ s hg (Or.inl hu)
        · rcases hc with ⟨hp, _⟩ | ⟨hp, hw⟩
          · have := (M.clKind _ s hg).1; rw [(gsl hp).2] at this; cases this
          · -- sole consumer of its stream; and the handle is counted on that stream only
            have hmem := (gcl hp).1
            have hl : (σ.cl (σ.th x).s).length = 1 := by rw [← M.nc]; exact hw
            have hone : σ.cl (σ.th x).s = [(σ.th x).g] := by
              match hsl : σ.cl (σ.th x).s, hl with
              | [a], _ => rw [hsl] at hmem; simp at hmem; rw [hmem]
            by_cases hs : s = (σ.th x).s
            · rw [hs]; exact hone
            · -- a handle is counted on its own stream only
              exfalso
              have h1 := (M.clKind _ s hg).2.2
              have h2 := (M.thr x).strm hxi
              exact hs (by rw [h2, h1])
    · rw [hv] at hu; exact M.uniR g s hg (Or.inr hu)
  · intro s hs; rw [e4] at hs; rw [e5]; exact M.clReg s hs
  · intro g ha hb hc
    obtain ⟨f1, f2, f3, _⟩ := hsame g
    rw [e3]; exact M.idleS g (by rw [← f2]; exact ha) (by rw [← f3]; exact hb) (by rw [← f1]; exact hc)
  · intro g ha hb hc
    obtain ⟨f1, f2, f3, _, _, f6, _⟩ := hsame g
    rw [e4, f6]; exact M.idleR g (by rw [← f2]; exact ha) (by rw [← f3]; exact hb) (by rw [← f1]; exact hc)
  · intro g ha
    obtain ⟨_, f2, _, f4, _⟩ := hsame g
    rw [f4]; exact M.aliveUsed g (by rw [← f2]; exact ha)
  · intro g hg
    obtain ⟨f1, _, _, f4, _⟩ := hsame g
    rw [e3] at hg; rw [f1, f4]; exact M.slKind g hg
  · intro g s hg
    obtain ⟨f1, _, _, f4, _, f6, _⟩ := hsame g
    rw [e4] at hg; rw [f1, f4, f6]; exact M.clKind g s hg
  · intro t u htu ht hu
    have nx : ¬ ((stepRun σ x inp).2.th x).creating := by
      intro hc
      rcases h with hp | hp
      · simp only [stepRun, hp] at hc
        split at hc <;> simp [Th.creating, St.goto, St.gotoF, St.setHd, St.setTh, St.flush, upd, PC.cloneS, PC.addPC, PC.afterNew] at hc
      · simp only [stepRun, hp, stepRun.stepLa2] at hc
        repeat' split at hc
        all_goals simp [Th.creating, St.goto, St.gotoF, St.setHd, St.setTh, St.flush, upd, PC.cloneS, PC.addPC, PC.afterNew] at hc
    by_cases e1 : t = x
    · subst e1; exact absurd ht nx
    · by_cases e2 : u = x
      · subst e2; exact absurd hu nx
      · rw [stepRun_th σ x inp t e1] at ht ⊢; rw [stepRun_th σ x inp u e2] at hu ⊢
        exact M.nginj t u htu ht hu

end MQ
