-- to be appended to MQ/Props/C13.lean (imports MQ.Inv.NRMain)

/-- C13 (the no-reader flag is accurate and final): in every execution without the futures handle conversions —
including the removal of the last stream — once the flag is up no stream is on the list, no receiver handle is
counted on any stream, and this remains so after every further step: the flag never goes up early, and nothing can
bring a receiver back. -/
theorem C13_flag_means_no_receiver (N : Nat) (bcast : Bool) (wait : WaitK) (fut : Bool) (ls : List Label)
    (h : ∀ l ∈ ls, l.noConv) (hf : (runFrom (init N bcast wait fut) ls).noReader = true) :
    (runFrom (init N bcast wait fut) ls).groups (runFrom (init N bcast wait fut) ls).cur = [] ∧
    ∀ s, (runFrom (init N bcast wait fut) ls).cl s = [] := by
  obtain ⟨n, m, _⟩ := nr_run _ ls h (nr_init N bcast wait fut) (minv_init N bcast wait fut) (reginv_init N bcast wait fut)
  exact ⟨n.flag hf, no_handle_of_no_stream m (n.flag hf)⟩

/-- C13: an empty stream list is final (a stream can only be added through a counted receiver handle) -/
theorem C13_no_stream_is_final (N : Nat) (bcast : Bool) (wait : WaitK) (fut : Bool) (ls : List Label)
    (h : ∀ l ∈ ls, l.noConv) (x inp : Nat)
    (he : (runFrom (init N bcast wait fut) ls).groups (runFrom (init N bcast wait fut) ls).cur = []) :
    (stepRun (runFrom (init N bcast wait fut) ls) x inp).2.groups (stepRun (runFrom (init N bcast wait fut) ls) x inp).2.cur = [] := by
  obtain ⟨_, m, r⟩ := nr_run _ ls h (nr_init N bcast wait fut) (minv_init N bcast wait fut) (reginv_init N bcast wait fut)
  exact empty_stable x inp m r he
